/-
Executable forms of C01 and C02 on REAL template output, using only the spec tokenizer
(Spec/HtmlTok), the spec character-reference decoder, the WHATWG scheme extractor and the srcset
parser. The template text is consulted only to attribute a failure to a listed finding class.
-/
import SafeHtml.Spec.HtmlTok
import SafeHtml.Spec.CharRef
import SafeHtml.Spec.UrlScheme
import SafeHtml.Spec.Srcset
import SafeHtml.Spec.Rfc3986
namespace SafeHtml.Oracle.C01
open SafeHtml SafeHtml.Spec SafeHtml.Spec.HtmlTok

def marker : Bytes := [122, 81, 55]          -- "zQ7"

def lowerB (s : Bytes) : Bytes := s.map asciiLower

/-- position of the first occurrence of `needle` -/
def indexOf (needle : Bytes) : Bytes → Option Nat
  | [] => if needle.isEmpty then some 0 else none
  | c :: t => if needle.isPrefixOf (c :: t) then some 0 else (indexOf needle t).map (· + 1)

def contains (needle s : Bytes) : Bool := (indexOf needle s).isSome

/-! ### classification of failures by what the TEMPLATE TEXT contains (listed finding classes) -/

/-- `<{{`, `</{{`, `<name{{` … : a tag (or its name) is assembled across an action / branch boundary -/
def hasSplitName : Bytes → Bool
  | [] => false
  | 60 :: t =>
    let nm := t.takeWhile fun c => isAlnum c || c == 47
    let rest := t.drop nm.length
    [123, 123].isPrefixOf rest || hasSplitName t
  | _ :: t => hasSplitName t

def rawTextNames : List Bytes :=
  [B "iframe", B "noembed", B "noframes", B "xmp", B "noscript", B "plaintext"]

/-- a special element's start tag whose name is directly followed by white space and a template construct
    (`<textarea {{else}}`, `<script {{end}}` …): the element name is chosen by a branch -/
def hasCondSpecialTag (lt : Bytes) : Bool :=
  [B "textarea", B "title", B "script", B "style"].any fun n =>
    [32, 9, 10, 12, 13].any fun w => contains ([60] ++ n ++ [w, 123, 123]) lt

def signatureOf (tmpl : Bytes) (plain outR : Result) : String :=
  let lt := lowerB tmpl
  let scriptCmt (r : Result) : Bool := r.tokens.any (fun t => match t with
      | .text "script" d => contains [60, 33, 45, 45] d
      | _ => false)
  if scriptCmt plain || scriptCmt outR then "script-comment"
  else if plain.tokens.any (fun t => match t with
      | .startTag n _ _ => rawTextNames.contains n
      | _ => false) || rawTextNames.any (fun n => contains ([60] ++ n) lt) then "foreign-rawtext"
  else if hasSplitName tmpl then "split-name"
  else if hasCondSpecialTag lt then "conditional-special-name"
  else ""

def verdict (clause sig : String) : String := if sig == "" then "fail:" ++ clause else "fail:" ++ clause ++ ":" ++ sig

/-- is the author's markup unambiguous: no bogus or abruptly closed comments, ends in the data state? -/
def wellFormedAuthor (tmpl : Bytes) (rp : Result) : Bool :=
  rp.final == .data &&
  !rp.tokens.any (fun t => match t with | .comment _ true => true | _ => false) &&
  !contains [60, 33, 45, 45, 62] tmpl && !contains [60, 33, 45, 45, 45, 62] tmpl && !contains [45, 45, 33, 62] tmpl

/-- **C01**: `out` = executed output; `outI` = the engine's output for inert values of the same shape and types
    (none if the engine refused them); `plain` = the author's template rendered by plain text/template with inert
    values (none if that failed) -/
def c01 (tmpl out : Bytes) (outI plain : Option Bytes) : String :=
  let ro := tokenize out
  let so := skeleton ro.tokens
  let sigT := match plain with
    | some p => signatureOf tmpl (tokenize p) ro
    | none => signatureOf tmpl (tokenize []) ro
  -- (b) no comment tokens; (c) an accepted template leaves the tokenizer in the data state
  if so.contains Sk.comment then verdict "comment-token-in-output" sigT
  else if ro.final != .data then verdict "output-does-not-end-in-data-state" sigT
  else
    -- (a) untrusted data cannot change the structure: same skeleton as for inert values
    let a : String := match outI with
      | none => "pass"
      | some oi =>
        let ri := tokenize oi
        if skeleton ri.tokens != so || ri.final != ro.final then verdict "structure-depends-on-untrusted-data" sigT else "pass"
    if a != "pass" then a
    else
      -- (d) and it is the structure the author wrote, whenever the author's markup is unambiguous
      match plain with
      | none => "pass"
      | some p =>
        let rp := tokenize p
        if !wellFormedAuthor tmpl rp then "pass"
        else
          let sp := (skeleton rp.tokens).filter (· != Sk.comment)
          if so != sp then verdict "tags-or-attribute-names-differ-from-authors-markup" sigT else "pass"

/-! ### C02 -/

def codeUrlAttr (elem attr : Bytes) (attrs : List (Bytes × Bytes)) : Bool :=
  (attr == B "src" && [B "script", B "iframe", B "frame", B "embed"].contains elem) ||
  (attr == B "data" && elem == B "object") ||
  (attr == B "href" && elem == B "base") ||
  (attr == B "href" && elem == B "link" &&
    match attrs.find? (fun a => a.1 == B "rel") with
    | some (_, v) =>
      -- split on ASCII whitespace, compare case-insensitively
      let toks := (CharRef.decodeAttr v).foldl (fun (acc : List Bytes × Bytes) c =>
        if HtmlTok.isWs c then (if acc.2.isEmpty then acc.1 else acc.2.reverse :: acc.1, []) else (acc.1, asciiLower c :: acc.2)) ([], [])
      let all := if toks.2.isEmpty then toks.1 else toks.2.reverse :: toks.1
      all.contains (B "stylesheet")
    | none => false)

def urlAttr (attr : Bytes) : Bool :=
  -- the URL-valued attributes the property lists (srcset is handled separately)
  [B "href", B "src", B "action", B "formaction"].contains attr

/-- end of the part of a URL that determines where it loads from: scheme and authority -/
def originEnd (u : Bytes) : Nat :=
  let authEnd (start : Nat) : Nat :=
    match indexOf [47] (u.drop start) with
    | some i => start + i
    | none => u.length
  if [47, 47].isPrefixOf u then authEnd 2
  else
    match indexOf [58] u with
    | some i =>
      if (u.take i).all (fun c => isAlnum c || c == 43 || c == 45 || c == 46) && i > 0 then
        (if [47, 47].isPrefixOf (u.drop (i + 1)) then authEnd (i + 3) else u.length)   -- non-hierarchical: all of it
      else 0
    | none => 0

def checkAttr (elem : Bytes) (attrs : List (Bytes × Bytes)) (a : Bytes × Bytes) : Option String :=
  let v := CharRef.decodeAttr a.2
  if !contains marker v && !contains marker a.2 then none
  else if [111, 110].isPrefixOf a.1 then some "untrusted-in-event-handler"
  else if a.1 == B "style" then some "untrusted-in-style-attribute"
  else if a.1 == B "srcdoc" then some "untrusted-in-srcdoc"
  else if codeUrlAttr elem a.1 attrs then
    match indexOf marker v with
    | some p => if p == 0 || p < originEnd v then some "untrusted-at-code-url-origin" else none
    | none => none
  else if a.1 == B "srcset" then
    if (Srcset.candidates v).any (fun c => UrlScheme.whatwgScheme c.1 == some UrlScheme.javascript) then
      some "javascript-url-in-srcset" else none
  else if urlAttr a.1 then
    if UrlScheme.whatwgScheme v == some UrlScheme.javascript then some "javascript-url" else none
  else none

def c02Tokens : List Token → Bytes → Option String
  | [], _ => none
  | .startTag n attrs _ :: rest, _ =>
    match attrs.findSome? (checkAttr n attrs) with
    | some f => some f
    | none => c02Tokens rest n
  | .text kind d :: rest, cur =>
    if contains marker d && (kind == "script" || (kind == "rawtext" && cur == B "style")) then
      some "untrusted-in-script-or-style-body"
    else c02Tokens rest cur
  | .comment d _ :: rest, cur => if contains marker d then some "untrusted-in-comment" else c02Tokens rest cur
  | _ :: rest, cur => c02Tokens rest cur

/-- URL values (decoded attribute values / srcset candidates) with the javascript scheme in the output -/
def jsValues : List Token → List Bytes
  | [] => []
  | .startTag _ attrs _ :: rest =>
    (attrs.flatMap fun a =>
      let v := CharRef.decodeAttr a.2
      if a.1 == B "srcset" then
        ((Srcset.candidates v).filter fun c => UrlScheme.whatwgScheme c.1 == some UrlScheme.javascript).map (·.1)
      else if urlAttr a.1 && UrlScheme.whatwgScheme v == some UrlScheme.javascript then [v] else []) ++ jsValues rest
  | _ :: rest => jsValues rest

def stripC0 (s : Bytes) : Bytes := (UrlScheme.preprocess s)

/-- some single data string is by itself a javascript: URL and reaches the output whole (modulo percent-encoding):
    then the failure is NOT an instance of "each piece was harmless, the concatenation is not" -/
def wholeJsDatum (data : List Bytes) (vals : List Bytes) : Bool :=
  data.any fun d =>
    (UrlScheme.whatwgScheme d == some UrlScheme.javascript ||
     UrlScheme.whatwgScheme (CharRef.decodeAttr d) == some UrlScheme.javascript) &&
    vals.any fun v =>
      let pv := Rfc3986.pctDecode (stripC0 v)
      let pd := Rfc3986.pctDecode (stripC0 d)
      let pd2 := Rfc3986.pctDecode (stripC0 (CharRef.decodeAttr d))
      pd.isPrefixOf pv || pd2.isPrefixOf pv

/-- the javascript URL consists of static template text (`S{{` occurs in the template) followed by ONE datum:
    then only one dynamic piece is involved and the failure is not an instance of "split over several actions" -/
def staticPlusOneDatum (tmpl : Bytes) (data : List Bytes) (vals : List Bytes) : Bool :=
  vals.any fun v =>
    let pv := Rfc3986.pctDecode (stripC0 v)
    data.any fun d =>
      let pd := Rfc3986.pctDecode d
      !pd.isEmpty && pd.length < pv.length && pv.drop (pv.length - pd.length) == pd &&
        contains (pv.take (pv.length - pd.length) ++ [123, 123]) tmpl

/-- **C02** on the executed output of a template whose untrusted data (`data`: every string leaf) all carries `marker` -/
def c02 (tmpl out : Bytes) (data : List Bytes := []) : String :=
  let r := tokenize out
  match c02Tokens r.tokens [] with
  | none => "pass"
  | some clause =>
    -- listed finding classes, recognised on the template text
    let lt := lowerB tmpl
    -- two or more actions in the template: the URL can be assembled from several pieces
    let countActions : Bytes → Nat → Nat := fun s fuel =>
      (List.range s.length).foldl (fun n i => if [123, 123].isPrefixOf (s.drop i) then n + 1 else n) (fuel * 0)
    let multiAction := countActions tmpl 0 ≥ 2
    -- a static prefix directly in front of the first action of a srcset value
    let srcsetPrefix : Bool :=
      match indexOf (B "srcset=") lt with
      | some i =>
        let v := (lt.drop (i + 8))            -- after srcset= and the quote
        match indexOf [123, 123] v with
        | some j => j > 0
        | none => false
      | none => false
    let whole := wholeJsDatum data (jsValues r.tokens) || staticPlusOneDatum tmpl data (jsValues r.tokens)
    let sig :=
      if hasSplitName tmpl then "split-name"
      else if clause == "javascript-url-in-srcset" && srcsetPrefix && !wholeJsDatum data (jsValues r.tokens) then "srcset-static-prefix"
      else if multiAction && !whole && (clause == "javascript-url" || clause == "javascript-url-in-srcset") then "split-scheme"
      else if clause == "untrusted-at-code-url-origin" && contains (B "rel=\"{{") lt then "rel-dynamic"
      else if clause == "untrusted-in-script-or-style-body" && contains (B "{{range") lt then "range-reentry-sanitizer"
      else ""
    verdict clause sig

end SafeHtml.Oracle.C01
