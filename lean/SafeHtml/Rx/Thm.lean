/-
Generic facts about the matcher: anchored search only tries offset 0; a greedy star over a
character class is "longest run first, then shorter ones"; boolean consequences.
-/
import SafeHtml.Rx.Match
import SafeHtml.Proofs.Utf8
namespace SafeHtml
namespace Rx

def adv (st : MSt) (n : Nat) : MSt := { st with pos := st.pos + n }

@[simp] theorem adv_zero (st : MSt) : adv st 0 = st := by simp [adv]
@[simp] theorem adv_adv (st : MSt) (a b : Nat) : adv (adv st a) b = adv st (a + b) := by
  simp [adv, Nat.add_assoc]
@[simp] theorem adv_pos (st : MSt) (a : Nat) : (adv st a).pos = st.pos + a := rfl
@[simp] theorem adv_caps (st : MSt) (a : Nat) : (adv st a).caps = st.caps := rfl

/-- length of the longest prefix whose runes are all in the class -/
def spanCls (rs : List (Nat × Nat)) : List Sym → Nat
  | [] => 0
  | c :: t => if inCls rs c.rune then spanCls rs t + 1 else 0

theorem spanCls_le (rs : List (Nat × Nat)) (s : List Sym) : spanCls rs s ≤ s.length := by
  induction s with
  | nil => simp [spanCls]
  | cons c t ih => simp only [spanCls]; split <;> simp <;> omega

/-- try continuation after consuming `n`, `n-1`, …, `0` symbols -/
def tryDown (k : MSt → List Sym → Option α) (st : MSt) (s : List Sym) : Nat → Option α
  | 0 => k st s
  | n+1 =>
    match k (adv st (n+1)) (s.drop (n+1)) with
    | some r => some r
    | none => tryDown k st s n

theorem tryDown_cons (k : MSt → List Sym → Option α) (st : MSt) (c : Sym) (t : List Sym) (n : Nat) :
    tryDown k st (c :: t) (n+1) =
      match tryDown k (adv st 1) t n with
      | some r => some r
      | none => k st (c :: t) := by
  induction n with
  | zero =>
    simp only [tryDown, List.drop_succ_cons, List.drop_zero, Nat.zero_add]
  | succ n ih =>
    rw [tryDown, ih]
    simp only [tryDown, List.drop_succ_cons, adv_adv]
    have : 1 + (n + 1) = n + 1 + 1 := by omega
    rw [this]
    cases k (adv st (n + 1 + 1)) (List.drop (n + 1) t) <;> rfl

theorem m_cat (a b : Re) (f) (st : MSt) (s : List Sym) (k : MSt → List Sym → Option α) :
    m (.cat a b) f st s k = m a f st s (fun st' s' => m b f st' s' k) := by simp [m]
theorem m_alt (a b : Re) (f) (st : MSt) (s : List Sym) (k : MSt → List Sym → Option α) :
    m (.alt a b) f st s k = (match m a f st s k with | some r => some r | none => m b f st s k) := by
  simp only [m]; rfl
theorem m_eps (f) (st : MSt) (s : List Sym) (k : MSt → List Sym → Option α) :
    m .eps f st s k = k st s := by simp [m]
theorem m_bot (f) (st : MSt) (s : List Sym) (k : MSt → List Sym → Option α) :
    m .bot f st s k = if st.pos == 0 then k st s else none := by simp [m]
theorem m_eot (f) (st : MSt) (s : List Sym) (k : MSt → List Sym → Option α) :
    m .eot f st s k = if s.isEmpty then k st s else none := by simp [m]
theorem m_cap (i) (a : Re) (f) (st : MSt) (s : List Sym) (k : MSt → List Sym → Option α) :
    m (.cap i a) f st s k =
      m a f st s (fun st' s' => k { st' with caps := (i, st.pos, st'.pos) :: st'.caps } s') := by simp [m]

theorem m_cls_cons (rs) (f) (st : MSt) (c : Sym) (t : List Sym) (k : MSt → List Sym → Option α) :
    m (.cls rs) f st (c :: t) k = if inCls rs c.rune then k (adv st 1) t else none := by
  simp [m, adv]

theorem m_cls_nil (rs) (f) (st : MSt) (k : MSt → List Sym → Option α) :
    m (.cls rs) f st [] k = none := by
  simp [m]

theorem m_star (a : Re) (g : Bool) (f) (st : MSt) (s : List Sym) (k : MSt → List Sym → Option α) :
    m (.star a g) f st s k = starLoop (fun st s k => m a f st s k) g f st s k := by simp [m]

/-- greedy loop over a class: longest run first -/
theorem starLoop_cls_greedy (rs : List (Nat × Nat)) (f0 : Nat) (k : MSt → List Sym → Option α) :
    ∀ (s : List Sym) (f : Nat) (st : MSt), s.length < f →
      starLoop (fun st s k => m (.cls rs) f0 st s k) true f st s k = tryDown k st s (spanCls rs s) := by
  intro s
  induction s with
  | nil =>
    intro f st hf
    cases f with
    | zero => simp at hf
    | succ f => simp [starLoop, m, spanCls, tryDown]
  | cons c t ih =>
    intro f st hf
    cases f with
    | zero => simp at hf
    | succ f =>
      have hf' : t.length < f := by simp at hf; omega
      simp only [starLoop, m_cls_cons, spanCls]
      by_cases hc : inCls rs c.rune = true
      · simp only [hc, if_true, List.length_cons, Nat.lt_succ_self]
        rw [tryDown_cons, ← ih f (adv st 1) hf']
        rfl
      · simp only [hc]
        rfl

/-- greedy star over a class: longest run first -/
theorem star_cls_greedy (rs : List (Nat × Nat)) (k : MSt → List Sym → Option α)
    (s : List Sym) (f : Nat) (st : MSt) (hf : s.length < f) :
    m (.star (.cls rs) true) f st s k = tryDown k st s (spanCls rs s) := by
  rw [m_star, starLoop_cls_greedy rs f k s f st hf]

theorem tryDown_isSome (k : MSt → List Sym → Option α) (st : MSt) (s : List Sym) (n : Nat) :
    (tryDown k st s n).isSome = true ↔ ∃ j, j ≤ n ∧ (k (adv st j) (s.drop j)).isSome = true := by
  induction n with
  | zero =>
    simp [tryDown]
  | succ n ih =>
    simp only [tryDown]
    cases hk : k (adv st (n+1)) (s.drop (n+1)) with
    | some r =>
      simp only [Option.isSome_some, true_iff]
      exact ⟨n+1, Nat.le_refl _, by simp [hk]⟩
    | none =>
      simp only []
      rw [ih]
      constructor
      · rintro ⟨j, hj, h⟩; exact ⟨j, by omega, h⟩
      · rintro ⟨j, hj, h⟩
        by_cases hjn : j = n + 1
        · subst hjn; simp [hk] at h
        · exact ⟨j, by omega, h⟩

/-- with an anchored pattern only offset 0 can match -/
theorem findFrom_bot (r : Re) (f : Nat) : ∀ (s : List Sym) (i : Nat), 0 < i →
    findFrom (.cat .bot r) f i s = none := by
  intro s
  induction s with
  | nil => intro i hi; simp [findFrom, m]; omega
  | cons c t ih =>
    intro i hi
    simp only [findFrom, m]
    have : (i == 0) = false := by simp; omega
    simp only [this]
    exact ih (i+1) (by omega)

def K0 : MSt → List Sym → Option Match := fun st _ => some ⟨0, st.pos, st.caps⟩

theorem find_bot (r : Re) (s : List Sym) :
    find (.cat .bot r) s = m r (s.length + 1) ⟨0, []⟩ s K0 := by
  unfold find K0
  cases s with
  | nil => simp [findFrom, m]
  | cons c t =>
    simp only [findFrom, m]
    rw [findFrom_bot r _ t 1 (by omega)]
    simp only [beq_self_eq_true, if_true]
    generalize m r ((c :: t).length + 1) ⟨0, []⟩ (c :: t) (fun st x => some (Match.mk 0 st.pos st.caps)) = x
    cases x <;> rfl

theorem spanCls_eq_length_iff (rs) (s : List Sym) :
    spanCls rs s = s.length ↔ s.all (fun x => inCls rs x.rune) = true := by
  induction s with
  | nil => simp [spanCls]
  | cons c t ih =>
    simp only [spanCls, List.length_cons, List.all_cons, Bool.and_eq_true]
    by_cases hc : inCls rs c.rune = true
    · simp [hc, ih]
    · simp [hc]

/-- `^C*$` -/
theorem match_bot_star_eot (rs : List (Nat × Nat)) (s : Bytes) :
    matchString (.cat .bot (.cat (.star (.cls rs) true) .eot)) s =
      (Utf8.decodeSyms s).all (fun x => inCls rs x.rune) := by
  unfold matchString
  rw [find_bot]
  generalize Utf8.decodeSyms s = syms
  simp only [m_cat, m_eot]
  rw [star_cls_greedy rs _ syms _ _ (by omega)]
  rw [Bool.eq_iff_iff, tryDown_isSome, ← spanCls_eq_length_iff]
  have hle := spanCls_le rs syms
  constructor
  · rintro ⟨j, hj, h⟩
    by_cases he : (syms.drop j).isEmpty = true
    · simp at he; omega
    · simp [he] at h
  · intro h
    exact ⟨syms.length, by omega, by simp [K0]⟩

/-- `^C` -/
theorem match_bot_cls (rs : List (Nat × Nat)) (s : Bytes) :
    matchString (.cat .bot (.cls rs)) s =
      match Utf8.decodeSyms s with
      | [] => false
      | c :: _ => inCls rs c.rune := by
  unfold matchString
  rw [find_bot]
  cases Utf8.decodeSyms s with
  | nil => simp [m]
  | cons c t => simp only [m]; split <;> simp_all [K0]

/-- `^C₁C₂+$` -/
theorem match_bot_cls_plus_eot (r1 r2 : List (Nat × Nat)) (s : Bytes) :
    matchString (.cat .bot (.cat (.cls r1) (.cat (Re.plus (.cls r2) true) .eot))) s =
      match Utf8.decodeSyms s with
      | c :: d :: t => inCls r1 c.rune && inCls r2 d.rune && t.all (fun x => inCls r2 x.rune)
      | _ => false := by
  unfold matchString
  rw [find_bot]
  generalize Utf8.decodeSyms s = syms
  match syms with
  | [] => simp [m]
  | [c] => simp [m, Re.plus]
  | c :: d :: t =>
    simp only [m_cat, m_eot, m_cls_cons, Re.plus]
    by_cases h1 : inCls r1 c.rune = true
    · by_cases h2 : inCls r2 d.rune = true
      · simp only [h1, h2, if_true, Bool.true_and]
        rw [star_cls_greedy r2 _ t _ _ (by simp; omega)]
        rw [Bool.eq_iff_iff, tryDown_isSome, ← spanCls_eq_length_iff]
        have hle := spanCls_le r2 t
        constructor
        · rintro ⟨j, hj, h⟩
          by_cases he : (t.drop j).isEmpty = true
          · simp at he; omega
          · simp [he] at h
        · intro h
          exact ⟨t.length, by omega, by simp [K0]⟩
      · simp [h1, h2]
    · simp [h1]

/-- a class all of whose ranges are ASCII -/
def asciiCls (rs : List (Nat × Nat)) : Bool := rs.all fun r => r.2 < 128

theorem inCls_ascii (rs) (h : asciiCls rs = true) (c : Nat) (hc : inCls rs c = true) : c < 128 := by
  simp only [asciiCls, List.all_eq_true, decide_eq_true_eq] at h
  simp only [inCls, List.any_eq_true, Bool.and_eq_true, decide_eq_true_eq] at hc
  obtain ⟨r, hr, _, h2⟩ := hc
  have := h r hr
  omega

/-- byte-level reading of `^C*$` for an ASCII class -/
theorem match_bot_star_eot_bytes (rs) (h : asciiCls rs = true) (s : Bytes) :
    matchString (.cat .bot (.cat (.star (.cls rs) true) .eot)) s = s.all (inCls rs) := by
  rw [match_bot_star_eot]
  exact Utf8.all_ascii_iff (inCls rs) (inCls_ascii rs h) s

/-- byte-level reading of `^C` for an ASCII class -/
theorem match_bot_cls_bytes (rs) (h : asciiCls rs = true) (s : Bytes) :
    matchString (.cat .bot (.cls rs)) s =
      match s with
      | [] => false
      | b :: _ => inCls rs b := by
  rw [match_bot_cls]
  cases s with
  | nil => simp [Utf8.decodeSyms_nil]
  | cons b t =>
    rw [Utf8.decodeSyms_cons]
    simp only []
    by_cases hb : b < 128
    · rw [Utf8.decode1_ascii b t hb]
    · have hr := Utf8.decode1_nonascii b t (by omega)
      have h1 : inCls rs (Utf8.decode1 b t).1 = false := by
        cases hh : inCls rs (Utf8.decode1 b t).1 with
        | false => rfl
        | true => have := inCls_ascii rs h _ hh; omega
      have h2 : inCls rs b = false := by
        cases hh : inCls rs b with
        | false => rfl
        | true => have := inCls_ascii rs h _ hh; omega
      rw [h1, h2]

end Rx
end SafeHtml
