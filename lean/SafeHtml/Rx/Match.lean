/-
Regex AST (the shape `regexp/syntax` produces after `Simplify`, classes as rune ranges with
case folding already expanded by the translator) and an executable backtracking matcher with
Go's leftmost-first priority, over decoded symbols.
-/
import SafeHtml.Basic.Utf8
namespace SafeHtml
namespace Rx

inductive Re where
  | eps
  | cls (rs : List (Nat × Nat))      -- one rune in one of the inclusive ranges
  | cat (a b : Re)
  | alt (a b : Re)                    -- priority: a first
  | star (a : Re) (greedy : Bool)
  | bot                               -- \A  (also `^` without (?m))
  | eot                               -- \z  (also `$` without (?m))
  | cap (i : Nat) (a : Re)
  deriving Repr, DecidableEq

def Re.plus (a : Re) (g : Bool) : Re := .cat a (.star a g)
def Re.quest (a : Re) (g : Bool) : Re := if g then .alt a .eps else .alt .eps a

def inCls (rs : List (Nat × Nat)) (c : Nat) : Bool :=
  rs.any fun r => r.1 ≤ c && c ≤ r.2

/-- matcher state: rune index in the whole text, captures -/
structure MSt where
  pos : Nat
  caps : List (Nat × Nat × Nat)
  deriving Repr

/-- one star: iterate `body` while it consumes input; greedy tries another iteration first.
    Structural on the fuel, so that `decide` can evaluate the matcher. -/
def starLoop (body : MSt → List Sym → (MSt → List Sym → Option α) → Option α) (g : Bool) :
    Nat → MSt → List Sym → (MSt → List Sym → Option α) → Option α
  | 0, st, s, k => k st s
  | f+1, st, s, k =>
      let loop := body st s (fun st' s' =>
        if s'.length < s.length then starLoop body g f st' s' k else none)
      if g then
        match loop with
        | some r => some r
        | none => k st s
      else
        match k st s with
        | some r => some r
        | none => loop

/-- `m r fuel st s k`: match `r` at the front of `s` (the rest of the text); on success call `k`.
    `fuel` bounds the number of iterations of each star (text length + 1 suffices). -/
def m : Re → Nat → MSt → List Sym → (MSt → List Sym → Option α) → Option α
  | .eps, _, st, s, k => k st s
  | .cls rs, _, st, s, k =>
      match s with
      | [] => none
      | c :: t => if inCls rs c.rune then k { st with pos := st.pos + 1 } t else none
  | .cat a b, f, st, s, k => m a f st s (fun st' s' => m b f st' s' k)
  | .alt a b, f, st, s, k =>
      match m a f st s k with
      | some r => some r
      | none => m b f st s k
  | .bot, _, st, s, k => if st.pos == 0 then k st s else none
  | .eot, _, st, s, k => if s.isEmpty then k st s else none
  | .cap i a, f, st, s, k =>
      m a f st s (fun st' s' => k { st' with caps := (i, st.pos, st'.pos) :: st'.caps } s')
  | .star a g, f, st, s, k => starLoop (fun st s k => m a f st s k) g f st s k

structure Match where
  start : Nat
  stop : Nat
  caps : List (Nat × Nat × Nat)
  deriving Repr

/-- leftmost-first search starting at rune index `i` of the text `all` (`s = all.drop i`). -/
def findFrom (r : Re) (fuel : Nat) : Nat → List Sym → Option Match
  | i, [] =>
      m r fuel ⟨i, []⟩ [] (fun st _ => some ⟨i, st.pos, st.caps⟩)
  | i, c :: t =>
      match m r fuel ⟨i, []⟩ (c :: t) (fun st _ => some ⟨i, st.pos, st.caps⟩) with
      | some x => some x
      | none => findFrom r fuel (i+1) t

def find (r : Re) (syms : List Sym) : Option Match :=
  findFrom r (syms.length + 1) 0 syms

/-- Go `MatchString` -/
def matchString (r : Re) (s : Bytes) : Bool := (find r (Utf8.decodeSyms s)).isSome

def capLookup (caps : List (Nat × Nat × Nat)) (i : Nat) : Option (Nat × Nat) :=
  match caps.find? (fun c => c.1 == i) with
  | some c => some c.2
  | none => none

def slice (syms : List Sym) (a b : Nat) : Bytes := Utf8.symsBytes ((syms.drop a).take (b - a))

/-- Go `FindStringSubmatch`: `none` if no match, else whole match and capture `1..n` (unset = none). -/
def findSubmatch (r : Re) (ncap : Nat) (s : Bytes) : Option (List (Option Bytes)) :=
  let syms := Utf8.decodeSyms s
  match find r syms with
  | none => none
  | some mt =>
    some (some (slice syms mt.start mt.stop) ::
      (List.range ncap).map fun j =>
        match capLookup mt.caps (j+1) with
        | some (a, b) => some (slice syms a b)
        | none => none)

/-- Go `ReplaceAllStringFunc` (non-overlapping leftmost matches; an empty match directly after a
    match is not replaced; always advance at least one rune). `repl` gets the matched bytes. -/
def replaceAux (r : Re) (repl : Bytes → Bytes) (all : List Sym) (n : Nat) :
    Nat → Nat → Nat → Bytes → Bytes
  | 0, _, lastEnd, acc => acc ++ slice all lastEnd n
  | fuel+1, searchPos, lastEnd, acc =>
    if searchPos > n then acc ++ slice all lastEnd n else
    match findFrom r (n + 1) searchPos (all.drop searchPos) with
    | none => acc ++ slice all lastEnd n
    | some mt =>
      let acc := acc ++ slice all lastEnd mt.start
      let acc := if mt.stop > lastEnd || mt.start == 0 then acc ++ repl (slice all mt.start mt.stop) else acc
      let next := if searchPos + 1 > mt.stop then searchPos + 1 else mt.stop
      replaceAux r repl all n fuel next mt.stop acc

def replaceAllFunc (r : Re) (s : Bytes) (repl : Bytes → Bytes) : Bytes :=
  let syms := Utf8.decodeSyms s
  replaceAux r repl syms syms.length (syms.length + 2) 0 0 []

end Rx
end SafeHtml
