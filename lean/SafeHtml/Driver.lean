/-
Line-protocol dispatch: model ops and oracle ops. Core Lean only (compiled into the `driver` exe).
  model line :  <op> <hexarg>...                      → canonical result
  oracle line:  O|<op> <hexarg>...|<real result>      → pass | fail:<clause>[:<signature>]
Each property contributes a module `SafeHtml.Ops.Cxx` with `model` and `oracle`; register it below.
-/
import SafeHtml.Ops.C18
import SafeHtml.Ops.Hist
import SafeHtml.Ops.C20
import SafeHtml.Ops.C17
import SafeHtml.Ops.C04
import SafeHtml.Ops.C01
import SafeHtml.Ops.C11
import SafeHtml.Ops.C10
import SafeHtml.Ops.C19
import SafeHtml.Ops.C16
import SafeHtml.Ops.C15
import SafeHtml.Ops.C14
import SafeHtml.Ops.C13
import SafeHtml.Ops.C12
namespace SafeHtml.Driver
open SafeHtml

def models : List (String → List Bytes → Option String) :=
  [Ops.C18.model, Ops.Hist.model, Ops.C17.model, Ops.C20.model, Ops.C12.model, Ops.C13.model, Ops.C14.model, Ops.C15.model, Ops.C16.model, Ops.C19.model, Ops.C10.model, Ops.C11.model, Ops.C04.model, Ops.C01.model]

def oracles : List (String → List Bytes → List String → Option String) :=
  [Ops.C18.oracle, Ops.Hist.oracle, Ops.C17.oracle, Ops.C20.oracle, Ops.C12.oracle, Ops.C13.oracle, Ops.C14.oracle, Ops.C15.oracle, Ops.C16.oracle, Ops.C19.oracle, Ops.C10.oracle, Ops.C11.oracle, Ops.C04.oracle, Ops.C01.oracle]

def runModel (op : String) (a : List Bytes) : String :=
  match models.findSome? (fun f => f op a) with
  | some r => r
  | none => "bad-op"

def runOracle (op : String) (a : List Bytes) (real : List String) : String :=
  match oracles.findSome? (fun f => f op a real) with
  | some r => r
  | none => "bad-op"

def splitFields (s : String) : List String :=
  (s.splitOn " ").filter (· ≠ "")

def decodeArgs (fs : List String) : Option (List Bytes) :=
  fs.mapM unhex

def handleLine (line : String) : String :=
  let line := line.trimAscii.toString
  if line.startsWith "O|" then
    match line.splitOn "|" with
    | [_, opl, real] =>
      match splitFields opl with
      | op :: args =>
        match decodeArgs args with
        | some a => runOracle op a (splitFields real)
        | none => "bad-args"
      | [] => "bad-op"
    | _ => "bad-line"
  else
    match splitFields line with
    | op :: args =>
      match decodeArgs args with
      | some a => runModel op a
      | none => "bad-args"
    | [] => "bad-op"

end SafeHtml.Driver
