/-
Line-protocol dispatch: model ops and oracle ops. Core Lean only (compiled into the `driver` exe).
  model line :  <op> <hexarg>...                      → canonical result
  oracle line:  O|<op> <hexarg>...|<real result>      → pass | fail:<clause>
-/
import SafeHtml.Model.Identifier
import SafeHtml.Oracle.C18
namespace SafeHtml.Driver
open SafeHtml

def optRes : Option Bytes → String
  | some b => "ok " ++ hexOf b
  | none => "panic"

/-- parse a real result of the form `ok <hex>` / `panic` -/
def parseOptRes (f : List String) : Option (Option Bytes) :=
  match f with
  | ["panic"] => some none
  | ["ok", h] => (unhex h).map some
  | _ => none

def runModel (op : String) (a : List Bytes) : String :=
  match op, a with
  | "ident.const", [v] => optRes (Model.identifierFromConstant v)
  | "ident.prefix", [p, v] => optRes (Model.identifierFromConstantPrefix p v)
  | _, _ => "bad-op"

def runOracle (op : String) (a : List Bytes) (real : List String) : String :=
  match op, a with
  | "ident.const", [v] =>
    match parseOptRes real with
    | some r => Oracle.C18.const v r
    | none => "fail:unparsable-real-result"
  | "ident.prefix", [p, v] =>
    match parseOptRes real with
    | some r => Oracle.C18.pref p v r
    | none => "fail:unparsable-real-result"
  | _, _ => "bad-op"

def splitFields (s : String) : List String :=
  (s.splitOn " ").filter (· ≠ "")

def decodeArgs (fs : List String) : Option (List Bytes) :=
  fs.mapM unhex

def handleLine (line : String) : String :=
  let line := line.trimAscii.toString
  if line.startsWith "O|" then
    match line.splitOn "|" with
    | [_, opl, real] =>
      match splitFields opl with
      | op :: args =>
        match decodeArgs args with
        | some a => runOracle op a (splitFields real)
        | none => "bad-args"
      | [] => "bad-op"
    | _ => "bad-line"
  else
    match splitFields line with
    | op :: args =>
      match decodeArgs args with
      | some a => runModel op a
      | none => "bad-args"
    | [] => "bad-op"

end SafeHtml.Driver
