/-
Reviewed.Api — the HAND-REVIEWED side of property C19. Edited only by hand, never by a run.

  * `trustedText`  : the parameters that stand for programmer-controlled text and therefore MUST have the
                     package's unexported defined string type (`stringConstant`).
  * `safeTypes`    : the types whose values carry the library's guarantees.
  * `constructors` : every exported function/method that can receive a run-time string (directly, via
                     ...string, map, interface{}, flag.Value, a struct of strings, a FuncMap) and yields a safe
                     type or a *Template — each pointing at the property that covers what it does with the
                     string, or at the known finding it constitutes.
  * `structs`      : every exported struct type with exported fields.

Names are keyed by `nameKey` of the readable name (kernel `decide` is fast on Nat keys only); the
`#guard` at the end re-computes every key from the readable name beside it.
-/
import SafeHtml.Basic.Bytes
namespace SafeHtml.Reviewed.Api
open SafeHtml

inductive Status
  | covered (prop : String)      -- a property id (C01…C20) or a named stdlib contract
  | finding (signature : String)
deriving DecidableEq, Repr

def Status.isCovered : Status → Bool
  | .covered _ => true
  | .finding _ => false

structure TrustedParam where
  func : Nat
  name : String
  idx : Nat
  what : String
deriving Repr

structure SafeType where
  pkg : Nat          -- 1 = safehtml, 2 = safehtml/template
  key : Nat          -- nameKey of the bare type name
  name : String      -- "pkg.Name"
deriving Repr

structure Entry where
  key : Nat
  name : String
  status : Status
  why : String
deriving Repr

def trustedText : List TrustedParam := [
  { func := 656172491022490989012479692303797478775198873282458938990232580203835649652, name := "safehtml.IdentifierFromConstant", idx := 0, what := "identifier text" },
  { func := 184696136628728784372583341379351548260957113328874901564680319494335439111166588048796024, name := "safehtml.IdentifierFromConstantPrefix", idx := 0, what := "identifier prefix" },
  { func := 152777063432729567636848295191440833756224662888384937873587138164, name := "safehtml.ScriptFromConstant", idx := 0, what := "script text" },
  { func := 11008747615142392180716061241135049255557607421695746597523138991518249578827705972, name := "safehtml.ScriptFromDataAndConstant", idx := 0, what := "JavaScript variable name" },
  { func := 11008747615142392180716061241135049255557607421695746597523138991518249578827705972, name := "safehtml.ScriptFromDataAndConstant", idx := 2, what := "script text" },
  { func := 596785404034099873581438675724847724749457597549944112762941044, name := "safehtml.StyleFromConstant", idx := 0, what := "style text" },
  { func := 656172491022490989012483457246149142939332533511213944165793793907173191284, name := "safehtml.StyleSheetFromConstant", idx := 0, what := "style sheet text" },
  { func := 3407042363793052346863339553337753750931343215025205789747164234066846140625883691511818363251118098056572532, name := "safehtml.TrustedResourceURLFormatFromConstant", idx := 0, what := "URL format string" },
  { func := 12104246010100369612641698158973304625374621021994435174019472732946834829749219902780665327220, name := "safehtml.TrustedResourceURLFromConstant", idx := 0, what := "resource URL" },
  { func := 39217897352715339094899581060297551985218374490268429096730897773669, name := "template.MakeTrustedTemplate", idx := 0, what := "template body" },
  { func := 11038856743996447667659993812352691746563341373822788503515449474606785352380468556, name := "template.MustParseAndExecuteToHTML", idx := 0, what := "template body" },
  { func := 8304712794946774179999834901467100731681826163, name := "template.ParseFiles", idx := 0, what := "template file names" },
  { func := 32440284355260836640624355083855862250106722, name := "template.ParseGlob", idx := 0, what := "template glob pattern" },
  { func := 35668469856969149163796589632200626455102664045101216613, name := "template.Template.Parse", idx := 0, what := "template body" },
  { func := 39217897352715339094899737514658395938656858725423307357140019864947, name := "template.Template.ParseFiles", idx := 0, what := "template file names" },
  { func := 153194911534044293339452099666634359135378354396184794363845177186, name := "template.Template.ParseGlob", idx := 0, what := "template glob pattern" },
  { func := 11038856743996447667660037678696293926535014861131271681822014135604343216734826100, name := "template.TrustedSourceFromConstant", idx := 0, what := "trusted source path" },
  { func := 185201283987085105753028666703626321604966075888409349360611204708087356685294992206621042, name := "template.TrustedSourceFromConstantDir", idx := 0, what := "trusted directory" },
  { func := 168439586547797358210144617900028899025497663286304804715301729366274804703602, name := "template.TrustedSourceFromEnvVar", idx := 0, what := "environment variable name" }]

def safeTypes : List SafeType := [
  { pkg := 1, key := 5508451660, name := "safehtml.HTML" },
  { pkg := 1, key := 373161563091060, name := "safehtml.Script" },
  { pkg := 1, key := 1457948028005, name := "safehtml.Style" },
  { pkg := 1, key := 1603030809484945017628020, name := "safehtml.StyleSheet" },
  { pkg := 1, key := 22368844, name := "safehtml.URL" },
  { pkg := 1, key := 375286932923764, name := "safehtml.URLSet" },
  { pkg := 1, key := 29657125525777909017898779794512343731622476, name := "safehtml.TrustedResourceURL" },
  { pkg := 1, key := 1555510556178725537932658, name := "safehtml.Identifier" },
  { pkg := 2, key := 26972998535509676930046195032933, name := "template.TrustedSource" },
  { pkg := 2, key := 1767702432023162187356741477416924261, name := "template.TrustedTemplate" },
  { pkg := 2, key := 6280140610297600951891, name := "template.TrustedFS" }]

def constructors : List Entry := [
  { key := 2120207668220430269846001500349086331573386634596, name := "safehtml.HTMLEscaped", status := (.covered "C10"),
    why := "escapes the text" },
  { key := 542773163064430149080580404972050916077005109355876, name := "safehtml.URLSanitized", status := (.covered "C11"),
    why := "scheme allow-list, else InnocuousURL" },
  { key := 9106222595735166528037098859583577045652068633341094159716, name := "safehtml.URLSetSanitized", status := (.covered "C12"),
    why := "each URL of the srcset sanitized" },
  { key := 184696136628728784372583341379351548260957113328874901564680319494335439111166588048796024, name := "safehtml.IdentifierFromConstantPrefix", status := (.covered "C18"),
    why := "dynamic value restricted to [-_A-Za-z0-9] after a constant prefix" },
  { key := 11008747615142392180716061241135049255557607421695746597523138991518249578827705972, name := "safehtml.ScriptFromDataAndConstant", status := (.covered "C17"),
    why := "data JSON-encoded, name and script constant" },
  { key := 39110928238778769315033165052303620489180453174479313080308168484211, name := "safehtml.StyleFromProperties", status := (.covered "C15"),
    why := "every property value validated" },
  { key := 493649316071632846688384993725630475365, name := "safehtml.CSSRule", status := (.covered "C16"),
    why := "selector validated, style already a Style" },
  { key := 43002920371649969455922140180964080348412256505221887344772372091999859092319844, name := "safehtml.TrustedResourceURLAppend", status := (.covered "C13"),
    why := "suffix percent-encoded after a trusted base" },
  { key := 3407042363793052346863339553337753750931343215025205789747164234066846140625883691511818363251118098056572532, name := "safehtml.TrustedResourceURLFormatFromConstant", status := (.covered "C13"),
    why := "arguments percent-encoded into a constant format" },
  { key := 184696136628728784372584505599568246847146927215491259369193614699586261262578395746758003, name := "safehtml.TrustedResourceURLWithParams", status := (.covered "C13"),
    why := "parameters percent-encoded into the query of a trusted URL" },
  { key := 793263866517937822934086330546474491928551163297427303564540165026403530646554122565271883147403623, name := "safehtml.TrustedResourceURLFormatFromFlag", status := (.finding "flag-value"),
    why := "format comes from any flag.Value implementation" },
  { key := 2818239389476452398263313378899661969713545642326221609027002177421663615328593928551, name := "safehtml.TrustedResourceURLFromFlag", status := (.finding "flag-value"),
    why := "value comes from any flag.Value implementation" },
  { key := 2570184120907552462923349272156202682884180653172375560231044454458089831, name := "template.TrustedSourceFromFlag", status := (.finding "flag-value"),
    why := "value comes from any flag.Value implementation" },
  { key := 185201283987085105753028666703626321604966075888409349360611204708087356685294992206621042, name := "template.TrustedSourceFromConstantDir", status := (.covered "C20"),
    why := "dynamic file name confined to a constant directory" },
  { key := 115251041973113063365816509815, name := "template.New", status := (.covered "C06"),
    why := "dynamic template NAME only; no template text" },
  { key := 544257657729631792660470422854623816758768677315959, name := "template.Template.New", status := (.covered "C06"),
    why := "dynamic template NAME only; no template text" },
  { key := 9131128283384102185931926945843360372506281991207943632240, name := "template.Template.Lookup", status := (.covered "C06"),
    why := "dynamic template NAME only; returns an existing template" },
  { key := 9131128283384102185931926945843360372506281982368850472307, name := "template.Template.Delims", status := (.covered "C01"),
    why := "delimiters only change how the constant text is split; no text is added" },
  { key := 9131128283384102185931926945843360372506281994510857236334, name := "template.Template.Option", status := (.covered "C08"),
    why := "text/template option string (missingkey=...); no text is added" },
  { key := 35668469856969149163796589632200626455102664002486821747, name := "template.Template.Funcs", status := (.finding "funcs-override"),
    why := "installs caller functions under caller-chosen names, including the reserved sanitizer names" },
  { key := 494999456104443918466558152524656100947, name := "template.ParseFS", status := (.covered "io/fs.ValidPath"),
    why := "dynamic patterns select files INSIDE a TrustedFS (embed.FS or os.DirFS of a TrustedSource); io/fs rejects rooted paths and '..' elements (stdlib contract, probed at run time by tools/apiprobe)" },
  { key := 2337568840546330159598573298135900255361608190859753331967571, name := "template.Template.ParseFS", status := (.covered "io/fs.ValidPath"),
    why := "as template.ParseFS" },
  { key := 657967134952333430508377394626727074876368867853504095239053164735743937868, name := "template.Template.ExecuteToHTML", status := (.covered "C01"),
    why := "contextual auto-escaping of the data (C01-C03)" },
  { key := 12137351347377609490630486349765802597759548533607827431529775765979668493393195978889593376076, name := "template.Template.ExecuteTemplateToHTML", status := (.covered "C01"),
    why := "contextual auto-escaping of the data (C01-C03); dynamic template NAME" }]

def structs : List Entry := [
  { key := 9106222595735166528037089168164790769108699852820376544627, name := "safehtml.StyleProperties", status := (.covered "C15"),
    why := "plain input data of StyleFromProperties; every field is validated there" },
  { key := 7553092286749937720742112350334834, name := "template.Error", status := (.covered "diagnostic"),
    why := "error report (code, node, name, line, description); never converted to a safe type" },
  { key := 126719860762737643127439176397077696574565, name := "template.Template", status := (.finding "exported-tree"),
    why := "exported field Tree: the parse tree the engine executes is mutable from outside" }]

/-- the known-finding signatures of C19 (see known_findings.json) -/
def findingSignatures : List String :=
  ["struct-conversion", "flag-value", "exported-tree", "funcs-override", "generic-inference"]

def lookup (l : List Entry) (k : Nat) : Option Entry := l.find? (·.key == k)

def isTrusted (f i : Nat) : Bool := trustedText.any fun t => t.func == f && t.idx == i

def isSafeTypeName (n : String) : Bool := safeTypes.any (·.name == n)

def bareName (s : String) : String := (s.splitOn ".").getLast!

-- every key is the nameKey of the readable name beside it
#guard trustedText.all fun t => nameKey (B t.name) == t.func
#guard safeTypes.all fun t => nameKey (B (bareName t.name)) == t.key
#guard constructors.all fun e => nameKey (B e.name) == e.key
#guard structs.all fun e => nameKey (B e.name) == e.key

end SafeHtml.Reviewed.Api
