/- Model of html.go: HTMLEscaped, HTMLConcat. -/
import SafeHtml.Basic.Utf8
import SafeHtml.Generated.Tables
namespace SafeHtml.Model
open SafeHtml

def inRanges (rs : List (Nat × Nat)) (c : Nat) : Bool := rs.any fun r => r.1 ≤ c && c ≤ r.2

/-- `unicode.Is(controlAndNonCharacter, r)` with the merged table of html.go -/
def isControlOrNonChar (r : Nat) : Bool :=
  inRanges Generated.Tables.controlChar r || inRanges Generated.Tables.nonCharacter r

/-- `coerceToUTF8InterchangeValid`: range over the string, replace, re-encode -/
def coerceRunes (s : Bytes) : List Nat :=
  (Utf8.decodeRunes s).map fun r => if isControlOrNonChar r then Utf8.runeError else r

def coerceToUTF8InterchangeValid (s : Bytes) : Bytes := Utf8.encodeRunes (coerceRunes s)

/-- Go `html.EscapeString` (a byte-level strings.Replacer over the five characters) -/
def escapeByte (b : Nat) : Bytes :=
  if b = 38 then [38, 97, 109, 112, 59]        -- &amp;
  else if b = 39 then [38, 35, 51, 57, 59]     -- &#39;
  else if b = 60 then [38, 108, 116, 59]       -- &lt;
  else if b = 62 then [38, 103, 116, 59]       -- &gt;
  else if b = 34 then [38, 35, 51, 52, 59]     -- &#34;
  else [b]

def htmlEscapeString (s : Bytes) : Bytes := s.flatMap escapeByte

def htmlEscaped (s : Bytes) : Bytes := htmlEscapeString (coerceToUTF8InterchangeValid s)

def htmlConcat (hs : List Bytes) : Bytes := hs.flatten

end SafeHtml.Model
