/-
Model of template/trustedsource.go (the part C20 is about).

  func TrustedSourceFromConstantDir(dir stringConstant, src TrustedSource, filename string) (TrustedSource, error) {
    if i := strings.IndexAny(filename, string([]rune{filepath.Separator, filepath.ListSeparator})); i != -1 { return …, err }
    if filename == ".." { return …, err }
    return TrustedSource{filepath.Join(string(dir), src.String(), filename)}, nil
  }

The rune set, the special name and the argument order of `filepath.Join` are regenerated facts
(`SafeHtml.Generated.TrustedSource`). Modelled library calls:
  * `strings.IndexAny(s, chars) != -1` for ASCII `chars`: some byte of `s` is in `chars`
    (an ASCII byte of a Go string is always a rune of its own, also inside invalid UTF-8);
    `Props.C20.gen_indexAnyRunes` proves the generated set is ASCII.
  * `filepath.Join` (GOOS=linux) = `Spec.Path.join`, validated against the real function by the
    correspondence ops `path.clean` / `path.join3`.
Core Lean only.
-/
import SafeHtml.Spec.Path
import SafeHtml.Generated.TrustedSource
namespace SafeHtml.Model
open SafeHtml

/-- `strings.IndexAny(s, string(runes)) != -1` for ASCII runes -/
def indexAnyHit (runes : List Nat) (s : Bytes) : Bool :=
  s.any (fun b => runes.contains b)

/-- model of `path/filepath.Join` on linux -/
def filepathJoin (elems : List Bytes) : Bytes := Spec.Path.join elems

/-- the i-th of the three string values `string(dir)`, `src.String()`, `filename` -/
def tsArg (dir src filename : Bytes) (i : Nat) : Bytes :=
  match i with
  | 0 => dir
  | 1 => src
  | 2 => filename
  | _ => []

/-- `TrustedSourceFromConstantDir`; `none` = the error return -/
def trustedSourceFromConstantDir (dir src filename : Bytes) : Option Bytes :=
  if indexAnyHit Generated.TrustedSource.indexAnyRunes filename then none
  else if filename = Generated.TrustedSource.specialName then none
  else some (filepathJoin (Generated.TrustedSource.joinArgs.map (tsArg dir src filename)))

/-- `TrustedSourceFromConstant(s).String()` -/
def trustedSourceFromConstant (s : Bytes) : Bytes := s

end SafeHtml.Model
