/-
Model of template/url.go (prefix validators, decodeURLPrefix, validateTrustedResourceURLSubstitution)
and of `validateDoesNotEndsWithCharRefPrefix` (template/sanitize.go). `none` = the Go function returns an error.
Regexes come from `Generated/Regexes`; `html.UnescapeString` is `Model.GoHtml.unescapeString`.
-/
import SafeHtml.Generated.Regexes
import SafeHtml.Generated.TmplUrlFacts
import SafeHtml.Model.GoHtml
import SafeHtml.Model.Url
import SafeHtml.Model.UrlUtil
namespace SafeHtml.Model.TmplUrl
open SafeHtml SafeHtml.Model SafeHtml.Generated.Regexes

/-- `validateDoesNotEndsWithCharRefPrefix(prefix) == nil` -/
def validateDoesNotEndsWithCharRefPrefix (p : Bytes) : Bool :=
  !Rx.matchString template_endsWithCharRefPrefixPattern p

/-- `strings.ContainsAny(s, chars)` for ASCII `chars` -/
def containsAny (s chars : Bytes) : Bool := s.any fun b => chars.contains b

def decodeURLPrefix (p : Bytes) : Option Bytes :=
  if Rx.matchString template_containsWhitespaceOrControlPattern p then none
  else if !validateDoesNotEndsWithCharRefPrefix p then none
  else
    let d := GoHtml.unescapeString p
    if Rx.matchString template_containsWhitespaceOrControlPattern d then none
    -- numeric character references without ';' are refused (Go's decoder and browsers disagree on some of them)
    else if Rx.matchString template_unterminatedNumericCharRefPattern p then none
    else if Rx.matchString template_endsWithPercentEncodingPrefixPattern d then none
    else some d

/-- `validateURLPrefix(prefix) == nil` -/
def validateURLPrefix (p : Bytes) : Bool :=
  match decodeURLPrefix p with
  | none => false
  | some d =>
    if Rx.matchString template_startsWithFullySpecifiedSchemePattern d then
      urlSanitized d == d
    else containsAny d [47, 63, 35]

/-- `validateTrustedResourceURLPrefix(prefix) == nil`. The list of extra "match ⇒ error" tests on the decoded
    prefix is regenerated from the function body (`Generated/TmplUrlFacts`): empty on the pinned tree,
    `[endsWithDotSegmentPattern]` after deliver/fix-C14-tru-dot.diff. -/
def validateTrustedResourceURLPrefix (p : Bytes) : Bool :=
  match decodeURLPrefix p with
  | none => false
  | some d =>
    isSafeTrustedResourceURLPrefix d &&
      !(Generated.TmplUrlFacts.truPrefixRejectPatterns.any fun r => Rx.matchString r d)

/-- `validateTrustedResourceURLSubstitution` on an already stringified argument -/
def validateTrustedResourceURLSubstitution (s : Bytes) : Option Bytes :=
  if urlContainsDoubleDotSegment s then none else some s

end SafeHtml.Model.TmplUrl

/-! ### `sanitizersForAttributeValue`, URL branch (template/sanitize.go), for a NON-EMPTY static prefix.
A small local mirror of the three-way `switch`; the template model has the full function. -/
namespace SafeHtml.Model.TmplUrl
open SafeHtml SafeHtml.Model

/-- the sanitization contexts that matter here -/
inductive SC where
  | other      -- not a URL context (e.g. `q cite`: None): only `_sanitizeHTML`
  | url        -- sanitizationContextURL (`form action`)
  | truOrUrl   -- sanitizationContextTrustedResourceURLOrURL (`a href`)
  | tru        -- sanitizationContextTrustedResourceURL (`script src`)
  deriving DecidableEq, Repr

/-- the sanitizers run before the final `_sanitizeHTML` -/
inductive Chain where
  | htmlOnly           -- [_sanitizeHTML]
  | norm               -- [_normalizeURL, _sanitizeHTML]
  | query              -- [_queryEscapeURL, _sanitizeHTML]
  | queryNoDotDot      -- [_validateTrustedResourceURLSubstitution, _queryEscapeURL, _sanitizeHTML]
  deriving DecidableEq, Repr

/-- `urlPrefixValidators[sc](prefix) == nil` -/
def prefixValid (sc : SC) (p : Bytes) : Bool :=
  match sc with
  | .other => true
  | .url | .truOrUrl => validateURLPrefix p
  | .tru => validateTrustedResourceURLPrefix p

/-- does the prefix put the action into the query or fragment part? (after deliver/fix-C14-charref-delims.diff: also when
    `?`/`#` is written as a character reference) -/
def inQueryOrFragment (p : Bytes) : Bool :=
  containsAny p [35, 63] || containsAny (GoHtml.unescapeString p) [35, 63]

/-- the chain chosen for an action after the non-empty prefix `p`; `none` = the template is rejected -/
def chooseChain (sc : SC) (p : Bytes) : Option Chain :=
  match sc with
  | .other => some .htmlOnly
  | .tru => if validateTrustedResourceURLPrefix p then some .queryNoDotDot else none
  | .url | .truOrUrl =>
    if !validateURLPrefix p then none
    else if inQueryOrFragment p then some .query
    else some .norm

/-- run the chain (without the final `_sanitizeHTML`) on string data; `none` = execution error -/
def runChain : Chain → Bytes → Option Bytes
  | .htmlOnly, w => some w
  | .norm, w => some (normalizeURL w)
  | .query, w => some (queryEscapeURL w)
  | .queryNoDotDot, w => (validateTrustedResourceURLSubstitution w).map queryEscapeURL

end SafeHtml.Model.TmplUrl
