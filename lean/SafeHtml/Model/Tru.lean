/-
Model of trustedresourceurl.go: trustedResourceURLFormat (FormatFromConstant / FormatFromFlag),
TrustedResourceURLAppend, TrustedResourceURLWithParams.  `none` = the Go function returns err ≠ nil
(callers must not use the partially built string then).  Go maps are association lists; the only
place where iteration order could matter is WithParams, where the code sorts.
-/
import SafeHtml.Model.UrlUtil
namespace SafeHtml.Model
open SafeHtml SafeHtml.Generated.Regexes

abbrev Args := List (Bytes × Bytes)

/-- `match[len("%{") : len(match)-len("}")]` -/
def markerLabel (m : Bytes) : Bytes := (m.drop 2).dropLast

/-- does the closure set `err` for this marker? (missing argument, or value with a `..`) -/
def argBad (args : Args) (m : Bytes) : Bool :=
  match args.lookup (markerLabel m) with
  | none => true
  | some v => urlContainsDoubleDotSegment v

/-- what the closure returns for this marker -/
def markerRepl (args : Args) (m : Bytes) : Bytes :=
  match args.lookup (markerLabel m) with
  | none => []
  | some v => if urlContainsDoubleDotSegment v then [] else queryEscapeURL v

def markerRe : Rx.Re := safehtml_trustedResourceURLFormatMarkerPattern

/-- Is `err ≠ nil` after `ReplaceAllStringFunc`?  The closure's side effect is modelled with the
    pure `Rx.replaceAllFunc`: replacing every marker that sets `err` by one byte and all others by
    nothing differs from deleting all markers iff some marker set `err`.  (Which error message
    survives — first missing argument unless a later dot-dot error overwrites it — is not observable
    in the canonical result.) -/
def formatErr (fmt : Bytes) (args : Args) : Bool :=
  Rx.replaceAllFunc markerRe fmt (fun m => if argBad args m then [33] else []) !=
    Rx.replaceAllFunc markerRe fmt (fun _ => [])

def trustedResourceURLFormat (fmt : Bytes) (args : Args) : Option Bytes :=
  if !isSafeTrustedResourceURLPrefix fmt then none
  else
    let ret := Rx.replaceAllFunc markerRe fmt (markerRepl args)
    if formatErr fmt args then none
    -- fix-C13-dotdot: the assembled URL is re-checked
    else if urlContainsDoubleDotSegment ret then none
    -- fix-C13-netpath: a path-absolute format must not become `//…` or `/\…`
    else if !([47, 47].isPrefixOf fmt) && ([47, 47].isPrefixOf ret || [47, 92].isPrefixOf ret) then none
    else some ret

def trustedResourceURLAppend (t s : Bytes) : Option Bytes :=
  if !isSafeTrustedResourceURLPrefix t then none
  else
    let ret := t ++ queryEscapeURL s
    -- fix-C13-dotdot
    if urlContainsDoubleDotSegment ret then none else some ret

/-- Go string `<=` : bytewise lexicographic -/
def bytesLe : Bytes → Bytes → Bool
  | [], _ => true
  | _ :: _, [] => false
  | a :: s, b :: t => a < b || (a == b && bytesLe s t)

def insertSorted (x : Bytes) : List Bytes → List Bytes
  | [] => [x]
  | y :: ys => if bytesLe x y then x :: y :: ys else y :: insertSorted x ys

/-- `sort.Strings` (the sorted permutation; insertion sort) -/
def sortStrings (l : List Bytes) : List Bytes := l.foldr insertSorted []

/-- `strings.Join(l, "&")` -/
def joinAmp : List Bytes → Bytes
  | [] => []
  | [x] => x
  | x :: y :: t => x ++ 38 :: joinAmp (y :: t)

/-- split at the first occurrence of `c`: (before, from `c` on) -/
def cutAt (c : Nat) : Bytes → Bytes × Bytes
  | [] => ([], [])
  | b :: t => if b == c then ([], b :: t) else ((cutAt c t).1.cons b, (cutAt c t).2)

def encodeParams (params : Args) : List Bytes :=
  params.filterMap fun kv =>
    if kv.1.isEmpty || kv.2.isEmpty then none
    else some (queryEscapeURL kv.1 ++ 61 :: queryEscapeURL kv.2)

def trustedResourceURLWithParams (t : Bytes) (params : Args) : Bytes :=
  let url := (cutAt 35 t).1
  let fragment := (cutAt 35 t).2
  let sep : Bytes :=
    match (cutAt 63 url).2 with
    | [] => [63]          -- no '?'
    | [_] => []           -- the first '?' is the last byte
    | _ => [38]
  let ps := sortStrings (encodeParams params)
  (if ps.isEmpty then url else url ++ sep ++ joinAmp ps) ++ fragment

end SafeHtml.Model
