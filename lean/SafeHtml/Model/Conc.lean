/-
Abstract model of concurrent calls on one template set (C09).

Every call of the concurrent API has the shape the source has (regenerated LockFacts, Props/C09.lean):

    lock mu;  critical section: reads and writes the shared state;  unlock mu;
    unlocked phase: only READS shared state (text/template execution of committed trees) and produces the result.

Because all critical sections take the same mutex they are atomic with respect to each other, so a schedule is a
sequence of events "thread i runs the critical section of its next call" / "thread i runs the unlocked phase of the
call whose critical section it ran last". The unlocked phase of a call may be delayed past any number of critical
sections of other threads. Core Lean only.
-/
namespace SafeHtml.Model.Conc

structure Call (S R1 R : Type) where
  /-- the critical section: new shared state and what the call remembers (e.g. which template to execute) -/
  crit : S → S × R1
  /-- the unlocked phase: reads the shared state as it is when the phase runs -/
  post : S → R1 → R

inductive Ev where
  | crit (i : Nat)
  | post (i : Nat)
  deriving DecidableEq, Repr

structure Thr (S R1 R : Type) where
  todo : List (Call S R1 R)
  pending : Option (Call S R1 R × R1) := none
  done : List R := []

structure Sys (S R1 R : Type) where
  s : S
  thr : List (Thr S R1 R)

variable {S R1 R : Type}

def setThr (l : List (Thr S R1 R)) (i : Nat) (t : Thr S R1 R) : List (Thr S R1 R) := l.set i t

/-- concurrent semantics: events that are not enabled are ignored -/
def step (y : Sys S R1 R) : Ev → Sys S R1 R
  | .crit i =>
    match y.thr[i]? with
    | some t =>
      match t.pending, t.todo with
      | none, c :: rest =>
        let r := c.crit y.s
        { s := r.1, thr := y.thr.set i { t with todo := rest, pending := some (c, r.2) } }
      | _, _ => y
    | none => y
  | .post i =>
    match y.thr[i]? with
    | some t =>
      match t.pending with
      | some (c, r1) => { y with thr := y.thr.set i { t with pending := none, done := t.done ++ [c.post y.s r1] } }
      | none => y
    | none => y

/-- serial semantics: the whole call runs at the moment of its critical section ("one after another") -/
def stepSerial (y : Sys S R1 R) : Ev → Sys S R1 R
  | .crit i =>
    match y.thr[i]? with
    | some t =>
      match t.pending, t.todo with
      | none, c :: rest =>
        let r := c.crit y.s
        { s := r.1, thr := y.thr.set i { t with todo := rest, pending := some (c, r.2), done := t.done ++ [c.post r.1 r.2] } }
      | _, _ => y
    | none => y
  | .post i =>
    match y.thr[i]? with
    | some t =>
      match t.pending with
      | some _ => { y with thr := y.thr.set i { t with pending := none } }
      | none => y
    | none => y

def run (y : Sys S R1 R) (evs : List Ev) : Sys S R1 R := evs.foldl step y
def runSerial (y : Sys S R1 R) (evs : List Ev) : Sys S R1 R := evs.foldl stepSerial y

/-- what the unlocked phases may rely on -/
structure Stable (U : Call S R1 R → Prop) (Inv : S → Prop) (Done : Call S R1 R → R1 → S → Prop) : Prop where
  inv_crit : ∀ c s, U c → Inv s → Inv (c.crit s).1
  done_est : ∀ c s, U c → Inv s → Done c (c.crit s).2 (c.crit s).1
  done_pres : ∀ c r d s, U c → U d → Inv s → Done c r s → Done c r (d.crit s).1
  post_stable : ∀ c r d s, U c → U d → Inv s → Done c r s → c.post (d.crit s).1 r = c.post s r

/-- relation between the concurrent and the serial run after the same events -/
structure RelThr (U : Call S R1 R → Prop) (Done : Call S R1 R → R1 → S → Prop) (s : S)
    (a b : Thr S R1 R) : Prop where
  todo : a.todo = b.todo
  pending : a.pending = b.pending
  univ : (∀ c ∈ a.todo, U c) ∧ (∀ c r, a.pending = some (c, r) → U c)
  done : b.done = a.done ++ (match a.pending with | some (c, r1) => [c.post s r1] | none => [])
  isDone : ∀ c r, a.pending = some (c, r) → Done c r s

def Rel (U : Call S R1 R → Prop) (Inv : S → Prop) (Done : Call S R1 R → R1 → S → Prop)
    (a b : Sys S R1 R) : Prop :=
  a.s = b.s ∧ Inv a.s ∧ a.thr.length = b.thr.length ∧
    ∀ (i : Nat) (ta tb : Thr S R1 R), a.thr[i]? = some ta → b.thr[i]? = some tb → RelThr U Done a.s ta tb

theorem getElem?_set_cases {α} (l : List α) (i j : Nat) (x y : α) (h : (l.set i x)[j]? = some y) :
    (j = i ∧ i < l.length ∧ y = x) ∨ (j ≠ i ∧ l[j]? = some y) := by
  by_cases hji : j = i
  · subst hji
    by_cases hl : j < l.length
    · left; rw [List.getElem?_set_self hl] at h; exact ⟨rfl, hl, by cases h; rfl⟩
    · rw [List.getElem?_eq_none (by simp; omega)] at h; cases h
  · right; rw [List.getElem?_set_ne (Ne.symm hji)] at h; exact ⟨hji, h⟩

theorem rel_step {U : Call S R1 R → Prop} {Inv : S → Prop} {Done : Call S R1 R → R1 → S → Prop}
    (hst : Stable U Inv Done) (a b : Sys S R1 R) (h : Rel U Inv Done a b) (e : Ev) :
    Rel U Inv Done (step a e) (stepSerial b e) := by
  obtain ⟨hs, hinv, hlen, hthr⟩ := h
  cases e with
  | crit i =>
    simp only [step, stepSerial]
    cases hai : a.thr[i]? with
    | none =>
      have hbi : b.thr[i]? = none := by
        rw [List.getElem?_eq_none_iff] at hai ⊢; omega
      simp only [hbi]
      exact ⟨hs, hinv, hlen, hthr⟩
    | some ta =>
      have hil : i < a.thr.length := by
        rcases Nat.lt_or_ge i a.thr.length with h | h
        · exact h
        · rw [List.getElem?_eq_none_iff.2 h] at hai; cases hai
      have : ∃ tb, b.thr[i]? = some tb := ⟨b.thr[i]'(by omega), List.getElem?_eq_getElem (by omega)⟩
      obtain ⟨tb, hbi⟩ := this
      have hr := hthr i ta tb hai hbi
      simp only [hbi]
      rw [← hr.pending, ← hr.todo]
      cases hp : ta.pending with
      | some p => simp only; exact ⟨hs, hinv, hlen, hthr⟩
      | none =>
        cases ht : ta.todo with
        | nil => simp only; exact ⟨hs, hinv, hlen, hthr⟩
        | cons c rest =>
          simp only
          have hUc : U c := hr.univ.1 c (by rw [ht]; simp)
          refine ⟨by rw [hs], hst.inv_crit c a.s hUc hinv, by simp [hlen], ?_⟩
          intro j ta' tb' hja hjb
          rcases getElem?_set_cases _ _ _ _ _ hja with ⟨hji, _, rfl⟩ | ⟨hji, hja'⟩
          · subst hji
            rw [List.getElem?_set_self (by omega)] at hjb
            cases hjb
            refine ⟨rfl, by rw [hs], ⟨fun d hd => hr.univ.1 d (by rw [ht]; simp [hd]), fun d r hdr => by cases hdr; exact hUc⟩, ?_, ?_⟩
            · have := hr.done
              rw [hp] at this
              simp only [List.append_nil] at this
              simp only [this, hs]
            · intro d r hdr; cases hdr
              exact hst.done_est c a.s hUc hinv
          · rw [List.getElem?_set_ne (Ne.symm hji)] at hjb
            have hr' := hthr j ta' tb' hja' hjb
            refine ⟨hr'.todo, hr'.pending, hr'.univ, ?_, ?_⟩
            · rw [hr'.done]
              cases hp' : ta'.pending with
              | none => rfl
              | some p =>
                obtain ⟨d, r⟩ := p
                simp only
                rw [hst.post_stable d r c a.s (hr'.univ.2 d r hp') hUc hinv (hr'.isDone d r hp')]
            · intro d r hdr
              exact hst.done_pres d r c a.s (hr'.univ.2 d r hdr) hUc hinv (hr'.isDone d r hdr)
  | post i =>
    simp only [step, stepSerial]
    cases hai : a.thr[i]? with
    | none =>
      have hbi : b.thr[i]? = none := by
        rw [List.getElem?_eq_none_iff] at hai ⊢; omega
      simp only [hbi]
      exact ⟨hs, hinv, hlen, hthr⟩
    | some ta =>
      have hil : i < a.thr.length := by
        rcases Nat.lt_or_ge i a.thr.length with h | h
        · exact h
        · rw [List.getElem?_eq_none_iff.2 h] at hai; cases hai
      have : ∃ tb, b.thr[i]? = some tb := ⟨b.thr[i]'(by omega), List.getElem?_eq_getElem (by omega)⟩
      obtain ⟨tb, hbi⟩ := this
      have hr := hthr i ta tb hai hbi
      simp only [hbi]
      rw [← hr.pending]
      cases hp : ta.pending with
      | none => simp only; exact ⟨hs, hinv, hlen, hthr⟩
      | some p =>
        obtain ⟨c, r1⟩ := p
        simp only
        refine ⟨hs, hinv, by simp [hlen], ?_⟩
        intro j ta' tb' hja hjb
        rcases getElem?_set_cases _ _ _ _ _ hja with ⟨hji, _, rfl⟩ | ⟨hji, hja'⟩
        · subst hji
          rw [List.getElem?_set_self (by omega)] at hjb
          cases hjb
          refine ⟨hr.todo, rfl, ⟨hr.univ.1, fun d r hdr => by cases hdr⟩, ?_, fun d r hdr => by cases hdr⟩
          have := hr.done
          rw [hp] at this
          simp only [this, List.append_nil]
        · rw [List.getElem?_set_ne (Ne.symm hji)] at hjb
          exact hthr j ta' tb' hja' hjb

/-- **Serializability.** Under the stability conditions, after ANY schedule the shared state is the one of the
    serial run (each call executed completely at the moment of its critical section), and every thread has
    obtained exactly the results of the serial run, except that the result of a call whose unlocked phase has
    not run yet is still outstanding — and will be the serial one whenever it runs. -/
theorem serializable {U : Call S R1 R → Prop} {Inv : S → Prop} {Done : Call S R1 R → R1 → S → Prop}
    (hst : Stable U Inv Done) (y : Sys S R1 R) (hinv : Inv y.s)
    (hfresh : ∀ t ∈ y.thr, t.pending = none ∧ t.done = [] ∧ ∀ c ∈ t.todo, U c) (evs : List Ev) :
    Rel U Inv Done (run y evs) (runSerial y evs) := by
  have h0 : Rel U Inv Done y y := by
    refine ⟨rfl, hinv, rfl, ?_⟩
    intro i ta tb ha hb
    rw [ha] at hb; cases hb
    have hm := hfresh ta (List.mem_of_getElem? ha)
    exact ⟨rfl, rfl, ⟨hm.2.2, fun c r h => by rw [hm.1] at h; cases h⟩, by rw [hm.1]; simp, fun c r h => by rw [hm.1] at h; cases h⟩
  suffices ∀ (a b : Sys S R1 R), Rel U Inv Done a b → Rel U Inv Done (run a evs) (runSerial b evs) from this y y h0
  induction evs with
  | nil => intro a b h; exact h
  | cons e es ih =>
    intro a b h
    exact ih _ _ (rel_step hst a b h e)

/-- when no call is outstanding, every thread has exactly the serial results -/
theorem serializable_results {U : Call S R1 R → Prop} {Inv : S → Prop} {Done : Call S R1 R → R1 → S → Prop}
    (hst : Stable U Inv Done) (y : Sys S R1 R) (hinv : Inv y.s)
    (hfresh : ∀ t ∈ y.thr, t.pending = none ∧ t.done = [] ∧ ∀ c ∈ t.todo, U c) (evs : List Ev)
    (i : Nat) (ta tb : Thr S R1 R) (ha : (run y evs).thr[i]? = some ta) (hb : (runSerial y evs).thr[i]? = some tb)
    (hidle : ta.pending = none) : ta.done = tb.done ∧ (run y evs).s = (runSerial y evs).s := by
  obtain ⟨hs, _, _, hthr⟩ := serializable hst y hinv hfresh evs
  have := (hthr i ta tb ha hb).done
  rw [hidle] at this
  simp only [List.append_nil] at this
  exact ⟨this.symm, hs⟩

end SafeHtml.Model.Conc
