/-
Model of Go's `html.UnescapeString` (`$GOROOT/src/html/escape.go`, text mode: `attribute = false`),
over the entity tables regenerated from the installed Go (`Generated/Entities.lean`).

Faithful to the Go code, including its quirks (all confirmed against the real function by the
correspondence, op `go.unescape`):
  * `rune` is int32: the numeric value is accumulated modulo 2^32; a value ≥ 2^31 is negative and
    `utf8.EncodeRune` turns it into U+FFFD;
  * `if len(s) <= 3` — "&#" followed by fewer than two more bytes at the very end of the string is not a reference;
  * `if i <= 3` — a *decimal* reference with one digit and no `;` ("&#9x") is NOT decoded, while
    "&#x;" (hex, no digits, with `;`) IS decoded (to U+FFFD);
  * named references: maximal alnum run (+ optional `;`) looked up whole in `entity`, then `entity2`,
    then prefixes of length min(len-1, longestEntityWithoutSemicolon) … 2 in `entity`.
-/
import SafeHtml.Basic.Utf8
import SafeHtml.Generated.Entities
import SafeHtml.Basic.EntityTable
namespace SafeHtml.Model.GoHtml
open SafeHtml SafeHtml.Generated.Entities SafeHtml.EntityTable

/-- Go `entity[name]` (0 = absent) -/
def entity1 (name : Bytes) : Nat :=
  match lookup name with
  | some (r, 0) => r
  | _ => 0

/-- Go `entity2[name]` -/
def entity2 (name : Bytes) : Option (Nat × Nat) :=
  match lookup name with
  | some (a, b) => if b == 0 then none else some (a, b)
  | none => none

def digitVal (hex : Bool) (c : Nat) : Option Nat :=
  if isDigit c then some (c - 48)
  else if hex && 97 ≤ c && c ≤ 102 then some (c - 87)
  else if hex && 65 ≤ c && c ≤ 70 then some (c - 55)
  else none

/-- the digit loop: (value mod 2^32, bytes consumed including an optional final `;`) -/
def numLoop (hex : Bool) : Bytes → Nat → Nat → Nat × Nat
  | [], x, n => (x, n)
  | c :: t, x, n =>
    match digitVal hex c with
    | some d => numLoop hex t (((if hex then 16 else 10) * x + d) % 4294967296) (n + 1)
    | none => if c == 59 then (x, n + 1) else (x, n)

/-- the rune Go writes for the accumulated int32 value -/
def numRune (x : Nat) : Nat :=
  if 0x80 ≤ x && x ≤ 0x9F then replacementTable.getD (x - 0x80) Utf8.runeError
  else if x == 0 || (0xD800 ≤ x && x ≤ 0xDFFF) || x > 0x10FFFF then Utf8.runeError
  else x

/-- length of the maximal alnum run -/
def alnumRun : Bytes → Nat
  | [] => 0
  | c :: t => if isAlnum c then alnumRun t + 1 else 0

/-- the loop `for j := maxLen; j > 1; j--` -/
def prefixLoop (name : Bytes) : Nat → Option (Nat × Nat)
  | 0 => none
  | j+1 =>
    if j + 1 > 1 then
      let x := entity1 (name.take (j + 1))
      if x != 0 then some (x, j + 1) else prefixLoop name j
    else none

/-- `unescapeEntity` on the bytes AFTER the `&`: (bytes written, number of those bytes consumed).
    "Not a reference" = (`&`, 0). -/
def unescapeEntity (rest : Bytes) : Bytes × Nat :=
  match rest with
  | [] => ([38], 0)
  | 35 :: t =>                                   -- '#'
    if rest.length ≤ 2 then ([38], 0) else
    let hex := match t with
      | c :: _ => c == 120 || c == 88
      | [] => false
    let start := if hex then 2 else 1            -- index in `rest` of the first digit
    let (x, n) := numLoop hex (rest.drop start) 0 0
    if start + 1 + n ≤ 3 then ([38], 0)
    else (Utf8.encodeRune (numRune x), start + n)
  | _ =>
    let k := alnumRun rest
    let i := match rest.drop k with
      | 59 :: _ => k + 1
      | _ => k
    let name := rest.take i
    if i == 0 then ([38], 0)
    else
      let x := entity1 name
      if x != 0 then (Utf8.encodeRune x, i)
      else match entity2 name with
        | some (a, b) => (Utf8.encodeRune a ++ Utf8.encodeRune b, i)
        | none =>
          match prefixLoop name (min (i - 1) longestEntityWithoutSemicolon) with
          | some (x, j) => (Utf8.encodeRune x, j)
          | none => (38 :: name, i)

def unescapeAux : Nat → Bytes → Bytes
  | 0, s => s
  | _+1, [] => []
  | f+1, c :: t =>
    if c == 38 then
      let r := unescapeEntity t
      r.1 ++ unescapeAux f (t.drop r.2)
    else c :: unescapeAux f t

/-- Go `html.UnescapeString` -/
def unescapeString (s : Bytes) : Bytes := unescapeAux s.length s

end SafeHtml.Model.GoHtml
