/-
Model of `encoding/json.Marshal` (Go 1.23, `encOpts{escapeHTML: true}`), as far as safehtml's
`ScriptFromDataAndConstant` can reach it:

* `encodeString`  = `appendString(dst, s, escapeHTML=true)`        (encode.go)
* `Scan`/`step`   = the validity scanner `scanner.step`            (scanner.go)
* `compact`       = `appendCompact(dst, src, escape=true)`         (indent.go) — what
                    `marshalerEncoder` applies to the bytes a `json.Marshaler` / `json.RawMessage` returns
* `enc`/`marshal` = the reflective encoder on a value tree `JVal`

Core Lean only; every function is structurally recursive so that `decide` evaluates it.
`none` = `json.Marshal` returns an error.
-/
import SafeHtml.Basic.Utf8
namespace SafeHtml.Model.GoJson
open SafeHtml

/-- A Go value as `encoding/json` sees it. -/
inductive JVal where
  | null                                          -- nil interface / nil pointer / nil map / nil slice
  | bool (b : Bool)
  | num (lit : Bytes)                             -- integer or float, as the literal text Go prints for it
  | str (s : Bytes)                               -- Go string: arbitrary bytes
  | arr (xs : List JVal)                          -- slice / array
  | obj (isMap : Bool) (kvs : List (Bytes × JVal)) -- map[string]T (keys get sorted) or struct (field order kept)
  | raw (b : Bytes)                               -- json.Marshaler / json.RawMessage returning these bytes
  | text (b : Bytes)                              -- encoding.TextMarshaler returning these bytes
  | bad                                           -- chan, func, NaN, ±Inf, cyclic pointer, Marshaler returning an error
  deriving Repr

/-! ### strings: `appendString` with `escapeHTML = true` -/

/-- `\u00XY` (lower-case hex, `hex = "0123456789abcdef"`) -/
def u00 (b : Nat) : Bytes := [92, 117, 48, 48, hexDigitLower (b / 16 % 16), hexDigitLower (b % 16)]

/-- one byte `< utf8.RuneSelf`: `htmlSafeSet[b]` ⇒ copied, else the `switch` -/
def escByte (b : Nat) : Bytes :=
  if b == 92 || b == 34 then [92, b]
  else if b == 8 then [92, 98]
  else if b == 12 then [92, 102]
  else if b == 10 then [92, 110]
  else if b == 13 then [92, 114]
  else if b == 9 then [92, 116]
  else if b < 32 || b == 60 || b == 62 || b == 38 then u00 b
  else [b]

/-- `�` -/
def uFFFD : Bytes := [92, 117, 102, 102, 102, 100]
/-- `\u202` ++ hex[c & 0xF] for c = U+2028 / U+2029 -/
def u202 (r : Nat) : Bytes := [92, 117, 50, 48, 50, hexDigitLower (r % 16)]

/-- one decoded symbol of the string -/
def encSym (x : Sym) : Bytes :=
  if x.rune < 128 then escByte x.rune
  else if x.rune == Utf8.runeError && x.bytes.length == 1 then uFFFD
  else if x.rune == 0x2028 || x.rune == 0x2029 then u202 x.rune
  else x.bytes

def encodeString (s : Bytes) : Bytes :=
  [34] ++ (Utf8.decodeSyms s).flatMap encSym ++ [34]

/-! ### the scanner (scanner.go) -/

inductive Fn where
  | beginValueOrEmpty | beginValue | beginStringOrEmpty | beginString | endValue | endTop
  | inString | inStringEsc | escU | escU1 | escU12 | escU123
  | neg | s1 | s0 | dot | dot0 | e | eSign | e0
  | t | tr | tru | f | fa | fal | fals | n | nu | nul
  | error
  deriving Repr, DecidableEq

inductive PS where
  | objKey | objVal | arrVal
  deriving Repr, DecidableEq

/-- result codes, collapsed to what `appendCompact` distinguishes -/
inductive Code where
  | cont      -- any code < scanSkipSpace
  | skip      -- scanSkipSpace
  | fin       -- scanEnd
  | error     -- scanError
  deriving Repr, DecidableEq

structure Scan where
  fn : Fn
  stack : List PS        -- head = innermost
  deriving Repr

def maxNestingDepth : Nat := 10000

def isSpace (c : Nat) : Bool := c == 32 || c == 9 || c == 13 || c == 10
def isHex (c : Nat) : Bool := (48 ≤ c && c ≤ 57) || (97 ≤ c && c ≤ 102) || (65 ≤ c && c ≤ 70)

def Scan.err (s : Scan) : Scan × Code := ({ s with fn := .error }, .error)
def Scan.go (s : Scan) (fn : Fn) : Scan × Code := ({ s with fn := fn }, .cont)

/-- `stateEndTop`: a non-space byte records the error but still returns `scanEnd` -/
def endTopStep (s : Scan) (c : Nat) : Scan × Code :=
  if isSpace c then ({ s with fn := .endTop }, .fin) else ({ s with fn := .error }, .fin)

def Scan.pop (s : Scan) : Scan :=
  match s.stack with
  | [] => s
  | _ :: rest => if rest.isEmpty then ⟨.endTop, rest⟩ else ⟨.endValue, rest⟩

def Scan.push (s : Scan) (ps : PS) (fn : Fn) : Scan × Code :=
  if s.stack.length + 1 ≤ maxNestingDepth then (⟨fn, ps :: s.stack⟩, .cont)
  else (⟨.error, ps :: s.stack⟩, .error)

def endValue (s : Scan) (c : Nat) : Scan × Code :=
  match s.stack with
  | [] => endTopStep s c
  | ps :: rest =>
    if isSpace c then ({ s with fn := .endValue }, .skip)
    else match ps with
      | .objKey => if c == 58 then (⟨.beginValue, .objVal :: rest⟩, .cont) else s.err
      | .objVal =>
        if c == 44 then (⟨.beginString, .objKey :: rest⟩, .cont)
        else if c == 125 then (s.pop, .cont) else s.err
      | .arrVal =>
        if c == 44 then s.go .beginValue
        else if c == 93 then (s.pop, .cont) else s.err

def beginValue (s : Scan) (c : Nat) : Scan × Code :=
  if isSpace c then (s, .skip)
  else if c == 123 then s.push .objKey .beginStringOrEmpty
  else if c == 91 then s.push .arrVal .beginValueOrEmpty
  else if c == 34 then s.go .inString
  else if c == 45 then s.go .neg
  else if c == 48 then s.go .s0
  else if c == 116 then s.go .t
  else if c == 102 then s.go .f
  else if c == 110 then s.go .n
  else if 49 ≤ c && c ≤ 57 then s.go .s1
  else s.err

def beginString (s : Scan) (c : Nat) : Scan × Code :=
  if isSpace c then (s, .skip)
  else if c == 34 then s.go .inString
  else s.err

def state0 (s : Scan) (c : Nat) : Scan × Code :=
  if c == 46 then s.go .dot
  else if c == 101 || c == 69 then s.go .e
  else endValue s c

def stateESign (s : Scan) (c : Nat) : Scan × Code :=
  if isDigit c then s.go .e0 else s.err

def lit1 (s : Scan) (c want : Nat) (next : Fn) : Scan × Code :=
  if c == want then s.go next else s.err

/-- `s.step(s, c)` -/
def step (s : Scan) (c : Nat) : Scan × Code :=
  match s.fn with
  | .beginValueOrEmpty =>
    if isSpace c then (s, .skip)
    else if c == 93 then endValue s c
    else beginValue s c
  | .beginValue => beginValue s c
  | .beginStringOrEmpty =>
    if isSpace c then (s, .skip)
    else if c == 125 then
      endValue { s with stack := match s.stack with | [] => [] | _ :: r => .objVal :: r } c
    else beginString s c
  | .beginString => beginString s c
  | .endValue => endValue s c
  | .endTop => endTopStep s c
  | .inString =>
    if c == 34 then s.go .endValue
    else if c == 92 then s.go .inStringEsc
    else if c < 32 then s.err
    else (s, .cont)
  | .inStringEsc =>
    if c == 98 || c == 102 || c == 110 || c == 114 || c == 116 || c == 92 || c == 47 || c == 34 then s.go .inString
    else if c == 117 then s.go .escU
    else s.err
  | .escU => if isHex c then s.go .escU1 else s.err
  | .escU1 => if isHex c then s.go .escU12 else s.err
  | .escU12 => if isHex c then s.go .escU123 else s.err
  | .escU123 => if isHex c then s.go .inString else s.err
  | .neg =>
    if c == 48 then s.go .s0
    else if 49 ≤ c && c ≤ 57 then s.go .s1
    else s.err
  | .s1 => if isDigit c then s.go .s1 else state0 s c
  | .s0 => state0 s c
  | .dot => if isDigit c then s.go .dot0 else s.err
  | .dot0 =>
    if isDigit c then (s, .cont)
    else if c == 101 || c == 69 then s.go .e
    else endValue s c
  | .e => if c == 43 || c == 45 then s.go .eSign else stateESign s c
  | .eSign => stateESign s c
  | .e0 => if isDigit c then (s, .cont) else endValue s c
  | .t => lit1 s c 114 .tr
  | .tr => lit1 s c 117 .tru
  | .tru => lit1 s c 101 .endValue
  | .f => lit1 s c 97 .fa
  | .fa => lit1 s c 108 .fal
  | .fal => lit1 s c 115 .fals
  | .fals => lit1 s c 101 .endValue
  | .n => lit1 s c 117 .nu
  | .nu => lit1 s c 108 .nul
  | .nul => lit1 s c 108 .endValue
  | .error => (s, .error)

def Scan.init : Scan := ⟨.beginValue, []⟩

/-- `scan.eof() != scanError` -/
def eofOk (s : Scan) : Bool :=
  match s.fn with
  | .error => false
  | .endTop => true
  | _ => (step s 32).1.fn == .endTop

/-! ### `appendCompact(dst, src, escape = true)` -/

/-- the source continues with `80 A8` or `80 A9` (after an `E2`): returns the third byte -/
def lsTail : Bytes → Option Nat
  | b :: d :: _ => if b == 128 && (d == 168 || d == 169) then some d else none
  | _ => none

/-- The loop of `appendCompact`. `skip` = number of following source bytes already replaced by a
    `\u202x` escape (Go: `start = i + 3`): they are fed to the scanner but not copied.
    (Where Go's index bookkeeping and this stream formulation could differ — a byte that is both
    replaced and skipped — the scanner has already recorded an error, and the output is discarded.) -/
def compactAux : Scan → Nat → Bytes → Option Bytes
  | st, _, [] => if eofOk st then some [] else none
  | st, skip, c :: t =>
    let r := step st c
    if r.2 == .error then none
    else if skip > 0 then compactAux r.1 (skip - 1) t
    else if c == 60 || c == 62 || c == 38 then (compactAux r.1 0 t).map (u00 c ++ ·)
    else if c == 226 && (lsTail t).isSome then
      (compactAux r.1 2 t).map (u202 ((lsTail t).getD 0) ++ ·)
    else if r.2 == .skip || r.2 == .fin then compactAux r.1 0 t
    else (compactAux r.1 0 t).map (c :: ·)

def compact (src : Bytes) : Option Bytes := compactAux Scan.init 0 src

/-! ### the encoder -/

/-- `strings.Compare(a, b) < 0` -/
def ltBytes : Bytes → Bytes → Bool
  | [], [] => false
  | [], _ :: _ => true
  | _ :: _, [] => false
  | a :: s, b :: t => a < b || (a == b && ltBytes s t)

def insertKV {α} (kv : Bytes × α) : List (Bytes × α) → List (Bytes × α)
  | [] => [kv]
  | x :: t => if ltBytes kv.1 x.1 then kv :: x :: t else x :: insertKV kv t

/-- `slices.SortFunc(sv, strings.Compare on the key)`; keys of a Go map are distinct -/
def sortKV {α} (l : List (Bytes × α)) : List (Bytes × α) := l.foldr insertKV []

def joinComma : List Bytes → Bytes
  | [] => []
  | [a] => a
  | a :: b :: t => a ++ [44] ++ joinComma (b :: t)

def member (p : Bytes × Bytes) : Bytes := encodeString p.1 ++ [58] ++ p.2

def litNull : Bytes := [110, 117, 108, 108]
def litTrue : Bytes := [116, 114, 117, 101]
def litFalse : Bytes := [102, 97, 108, 115, 101]

mutual
/-- `reflectValue` -/
def enc : JVal → Option Bytes
  | .null => some litNull
  | .bool b => some (if b then litTrue else litFalse)
  | .num lit => some lit
  | .str s => some (encodeString s)
  | .text s => some (encodeString s)
  | .raw b => compact b
  | .bad => none
  | .arr xs => (encL xs).map fun es => [91] ++ joinComma es ++ [93]
  | .obj isMap kvs =>
    (encM kvs).map fun ps => [123] ++ joinComma ((if isMap then sortKV ps else ps).map member) ++ [125]
def encL : List JVal → Option (List Bytes)
  | [] => some []
  | x :: t =>
    match enc x, encL t with
    | some a, some b => some (a :: b)
    | _, _ => none
def encM : List (Bytes × JVal) → Option (List (Bytes × Bytes))
  | [] => some []
  | (k, x) :: t =>
    match enc x, encM t with
    | some a, some b => some ((k, a) :: b)
    | _, _ => none
end

/-- `json.Marshal(v)` -/
def marshal (v : JVal) : Option Bytes := enc v

end SafeHtml.Model.GoJson
