/- Model of script.go: `ScriptFromDataAndConstant`. -/
import SafeHtml.Generated.Regexes
import SafeHtml.Model.GoJson
namespace SafeHtml.Model
open SafeHtml.Generated.Regexes

inductive ScriptErr where
  | name     -- fmt.Errorf("variable name %q is an invalid Javascript identifier", …)
  | json     -- the error of json.Marshal
  deriving Repr, DecidableEq

instance : DecidableEq (Except ScriptErr Bytes) := fun a b =>
  match a, b with
  | .ok x, .ok y => if h : x = y then isTrue (by rw [h]) else isFalse (fun e => by cases e; exact h rfl)
  | .error x, .error y => if h : x = y then isTrue (by rw [h]) else isFalse (fun e => by cases e; exact h rfl)
  | .ok _, .error _ => isFalse (fun e => by cases e)
  | .error _, .ok _ => isFalse (fun e => by cases e)

/-- "var " -/
def scriptVar : Bytes := [118, 97, 114, 32]
/-- " = " -/
def scriptEq : Bytes := [32, 61, 32]
/-- ";\n" -/
def scriptEnd : Bytes := [59, 10]

/-- `ScriptFromDataAndConstant(name, data, script)`; on error Go returns the zero `Script{}`, which
    is why the error case carries no bytes. `fmt.Sprintf("var %s = %s;\n%s", name, json, script)`. -/
def scriptFromDataAndConstant (name : Bytes) (v : GoJson.JVal) (script : Bytes) : Except ScriptErr Bytes :=
  if !Rx.matchString safehtml_jsIdentifierPattern name then .error .name
  else
    match GoJson.marshal v with
    | none => .error .json
    | some j => .ok (scriptVar ++ name ++ scriptEq ++ j ++ scriptEnd ++ script)

end SafeHtml.Model
