/-
Model.Api — what the Go type checker answers for a client program of one of the probe shapes,
PREDICTED from the regenerated API surface (Generated.ApiSurface) with the rules of Spec.GoTypes.
This is the "model" side of the C19 correspondence; the real side is go/types on the program text.
Core Lean only.
-/
import SafeHtml.Spec.GoTypes
import SafeHtml.Generated.ApiSurface
namespace SafeHtml.Model.Api
open SafeHtml SafeHtml.Spec.GoTypes SafeHtml.Generated

def findFunc (k : Nat) : Option Func := ApiSurface.funcs.find? (·.key == k)
def findType (pkg k : Nat) : Option TypeDecl := ApiSurface.types.find? fun t => t.pkg == pkg && t.key == k
def findVar (k : Nat) : Option VarDecl := ApiSurface.vars.find? (·.key == k)

/-- exported fields of the exported types of package `pkg` -/
def exportedFields (pkg : Nat) : List Field :=
  ApiSurface.types.flatMap fun t => if t.pkg == pkg then t.fields.filter (·.exported) else []

/-- does any exported result, variable, constant or field of package `pkg` have a type that mentions
an unexported string type? (Only `pkg` itself can mention its own unexported type.) -/
def leaksPkg (pkg : Nat) : Bool :=
  ApiSurface.funcs.any (fun f => f.pkg == pkg && f.resultMentionsSC) ||
    ApiSurface.vars.any (fun v => v.pkg == pkg && v.mentionsSC) ||
    (exportedFields pkg).any (·.mentionsSC)

/-- sources of values the client cannot name: none unless the declaring package leaks its type -/
def env : StrTy → Bool
  | .lib pkg _ false => leaksPkg pkg
  | _ => false

/-- the string-kind type a parameter class is about (`p` in the argument encoding) -/
def paramStrTy : Cls → StrTy
  | .str t => t
  | .variadic t => t
  | .slice t => t
  | _ => .string

def verdict (b : Bool) : String := if b then "compiles" else "rejected"

/-- argument `a` in parameter position `i` of function `f` -/
def assignOk (f : Func) (i : Nat) (a : Arg) : Bool :=
  match f.params[i]? with
  | some c => argCompiles env c a
  | none => false

def structSig (t : TypeDecl) : List FieldSig := t.fields.map Field.sig

def convertOk (a b : TypeDecl) : Bool :=
  a.kind == .struct && b.kind == .struct && convertibleStruct (structSig a) (structSig b)

def makeOk (t : TypeDecl) (m : Make) : Bool :=
  t.kind == .struct && makeCompiles clientPkg (structSig t) m

end SafeHtml.Model.Api
