/- Model of identifier.go. `none` = the Go function panics. -/
import SafeHtml.Generated.Regexes
namespace SafeHtml.Model
open SafeHtml.Generated.Regexes

def identifierFromConstant (v : Bytes) : Option Bytes :=
  if !Rx.matchString safehtml_startsWithAlphabetPattern v ||
     !Rx.matchString safehtml_onlyAlphanumericsOrHyphenPattern v then none
  else some v

def identifierFromConstantPrefix (p v : Bytes) : Option Bytes :=
  if !Rx.matchString safehtml_startsWithAlphabetPattern p ||
     !Rx.matchString safehtml_onlyAlphanumericsOrHyphenPattern p then none
  else if !Rx.matchString safehtml_onlyAlphanumericsOrHyphenPattern v then none
  else some (p ++ [45] ++ v)

end SafeHtml.Model
