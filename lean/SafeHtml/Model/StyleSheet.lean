/- Model of stylesheet.go: CSSRule and hasBalancedBrackets. `none` = error return. -/
import SafeHtml.Generated.Regexes
namespace SafeHtml.Model
open SafeHtml SafeHtml.Generated.Regexes

/-- `matchingBrackets`: closing ↦ opening. Go ranges over the map's *values* to recognise an opening
    bracket; the result does not depend on the iteration order (membership test). -/
def matchingBrackets : List (Nat × Nat) := [(41, 40), (93, 91)]

def bracketStep (stack : List Nat) (c : Nat) : Option (List Nat) :=
  match matchingBrackets.find? (fun e => e.1 == c) with
  | some e =>
    (match stack with
      | [] => none
      | top :: rest => if top == e.2 then some rest else none)
  | none => if matchingBrackets.any (fun e => e.2 == c) then some (c :: stack) else some stack

def balancedFrom : List Nat → Bytes → Bool
  | stack, [] => stack.isEmpty
  | stack, c :: t =>
    match bracketStep stack c with
    | none => false
    | some st => balancedFrom st t

def hasBalancedBrackets (s : Bytes) : Bool := balancedFrom [] s

/-- `cssStringPattern.ReplaceAllString(selector, "")` -/
def selectorWithoutStrings (sel : Bytes) : Bytes :=
  Rx.replaceAllFunc safehtml_cssStringPattern sel (fun _ => [])

/-- the literal `url(` check of the fixed code: `strings.Contains(strings.ToLower(s), "url(")`;
    only ASCII letters matter (U+212A etc. do not lower-case to `u`, `r` or `l`). -/
def containsUrlParen : Bytes → Bool
  | [] => false
  | c :: t =>
    (match c :: t with
      | a :: b :: d :: e :: _ => asciiLower a == 117 && asciiLower b == 114 && asciiLower d == 108 && e == 40
      | _ => false) || containsUrlParen t

def cssRuleWith (urlCheck : Bool) (sel style : Bytes) : Option Bytes :=
  if sel.contains 60 then none
  else
    let s := selectorWithoutStrings sel
    if (Rx.findSubmatch safehtml_invalidCSSSelectorRune safehtml_invalidCSSSelectorRune_ncap s).isSome then none
    else if !hasBalancedBrackets s then none
    else if urlCheck && containsUrlParen s then none
    else some (sel ++ [123] ++ style ++ [125])

/-- `CSSRule` (with the `url(` check of fix-C16) -/
def cssRule (sel style : Bytes) : Option Bytes := cssRuleWith true sel style

end SafeHtml.Model
