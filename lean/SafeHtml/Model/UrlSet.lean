/- PLACEHOLDER model of urlset.go (to be replaced by the C12 builder's full model with the same
   entry point `urlSetSanitized`). ParseFloat acceptance is approximated by decimal numbers. -/
import SafeHtml.Model.Url
namespace SafeHtml.Model
open SafeHtml SafeHtml.Generated.Tables

def consumeIn (mask : List Nat) : Bytes → Bytes × Bytes
  | [] => ([], [])
  | c :: t => if mask.contains c then let (a, b) := consumeIn mask t; (c :: a, b) else ([], c :: t)

def consumeNotIn (mask : List Nat) : Bytes → Bytes × Bytes
  | [] => ([], [])
  | c :: t => if mask.contains c then ([], c :: t) else let (a, b) := consumeNotIn mask t; (c :: a, b)

def simpleFloatOk (m : Bytes) : Bool :=
  let m := match m with | 43 :: t => t | 45 :: t => t | _ => m
  let (ip, rest) := consumeIn [48,49,50,51,52,53,54,55,56,57] m
  match rest with
  | [] => !ip.isEmpty
  | 46 :: fr => (!ip.isEmpty || !fr.isEmpty) && fr.all isDigit
  | _ => false

def metadataOk (pf : Bytes → Bool) (m : Bytes) : Bool :=
  match m.getLast? with
  | none => true
  | some l =>
    let lo := if 65 ≤ l && l ≤ 90 then l + 32 else l
    let pre := if 97 ≤ lo && lo ≤ 122 && l < 128 then m.dropLast else m
    pf pre

def appendURLToSet (url : Bytes) : Bytes :=
  match url with
  | [] => []
  | c :: t =>
    let (pre, body) := if c == 44 then ([37, 50, 99], t) else ([], url)
    match body.getLast? with
    | some 44 => pre ++ body.dropLast ++ [37, 50, 99]
    | _ => pre ++ body

def urlSetLoop (pf : Bytes → Bool) : Nat → Bytes → Bytes → Bytes
  | 0, _, buf => buf
  | f+1, str, buf =>
    if str.isEmpty then buf else
    let (_, s1) := consumeIn asciiWhitespace str
    let (url, s2) := consumeNotIn asciiWhitespace s1
    let (_, s3) := consumeIn asciiWhitespace s2
    let (md, s4) := consumeNotIn srcsetMetachars s3
    let (_, s5) := consumeIn asciiWhitespace s4
    let buf :=
      if !url.isEmpty && isSafeURL url && metadataOk pf md then
        (if buf.isEmpty then [] else buf ++ [32, 44, 32]) ++ appendURLToSet url ++
          (if md.isEmpty then [] else 32 :: md)
      else buf
    match s5 with
    | 44 :: rest => urlSetLoop pf f rest buf
    | _ => buf

def urlSetSanitizedWith (pf : Bytes → Bool) (s : Bytes) : Bytes :=
  let buf := urlSetLoop pf (s.length + 1) s []
  if buf.isEmpty then innocuousURL else buf

def urlSetSanitized (s : Bytes) : Bytes := urlSetSanitizedWith simpleFloatOk s

end SafeHtml.Model
