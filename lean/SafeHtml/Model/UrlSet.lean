/-
Model of urlset.go: URLSetSanitized, appendURLToSet, consumeIn / consumeNotIn,
isOptionalSrcMetadataWellFormed.

* The two byte tables come from `Generated.Tables` (regenerated from the `init` assignments).
* `isSafeURL` is the model of url.go (`Model.isSafeURL`); the loop is written over an arbitrary
  `safe : Bytes → Bool` and `pf : Bytes → Bool` (`strconv.ParseFloat(·, 64)` returns a nil error) so that the
  theorems of `Props/C12` can be stated for opaque functions; `urlSetSanitized` instantiates them.
* `strconv.ParseFloat` is an external call. `parseFloatOk` mirrors the accepted syntax of
  `$GOROOT/src/strconv/atof.go` (`special`, `readFloat`, `underscoreOK`) and the range error
  (value rounds to ±Inf ⇔ |value| ≥ 2^1024 − 2^970, exact arithmetic on `Nat`); it is validated
  against the real `strconv.ParseFloat` by the harness op `urlset.pf`.
* Go loops over a shrinking string are written with fuel (`len(str)+1` suffices: every iteration
  that does not `break` removes at least the comma).
-/
import SafeHtml.Model.Url
namespace SafeHtml.Model.UrlSet
open SafeHtml

/-- `mask[b]` for one of the `[256]bool` tables (given as the list of bytes set to true) -/
def inTable (mask : List Nat) (b : Nat) : Bool := mask.contains b

/-- Go `consumeIn(str, mask)`: longest prefix of bytes in the mask, and the rest -/
def consumeIn (str : Bytes) (mask : List Nat) : Bytes × Bytes :=
  (str.takeWhile (inTable mask), str.dropWhile (inTable mask))

/-- Go `consumeNotIn(str, mask)`: longest prefix of bytes NOT in the mask, and the rest -/
def consumeNotIn (str : Bytes) (mask : List Nat) : Bytes × Bytes :=
  (str.takeWhile (fun b => !inTable mask b), str.dropWhile (fun b => !inTable mask b))

def asciiWhitespace : List Nat := Generated.Tables.asciiWhitespace
def srcsetMetachars : List Nat := Generated.Tables.srcsetMetachars

/-- "%2c" -/
def pct2c : Bytes := [37, 50, 99]
/-- " , " -/
def separator : Bytes := [32, 44, 32]

/-- Go `appendURLToSet(url, &buffer)`: the bytes appended to the buffer. The Go code indexes `url[0]`,
    so it would panic on the empty string; the only call site guards `len(url) != 0`
    (the model returns `[]` there and the loop never calls it with `[]`). -/
def appendURLToSet (url : Bytes) : Bytes :=
  match url with
  | [] => []
  | c :: t =>
    let pre := if c = 44 then pct2c else []
    let body := if c = 44 then t else c :: t          -- url[left:]
    if body ≠ [] ∧ body.getLast? = some 44 then pre ++ body.dropLast ++ pct2c
    else pre ++ body

/-! ### strconv.ParseFloat(s, 64) succeeds -/

/-- Go `c | 32` (strconv's `lower`, and the letter test of isOptionalSrcMetadataWellFormed) written arithmetically:
    set bit 5. Equal to `c ||| 32` (checked for all bytes in `Props/C12`: `orBit5_eq_lor`). -/
def orBit5 (c : Nat) : Nat := if c / 32 % 2 = 1 then c else c + 32

def lowerB (c : Nat) : Nat := if 65 ≤ c ∧ c ≤ 90 then c + 32 else c

/-- `commonPrefixLenIgnoreCase(s, prefix)` (prefix lower-case) -/
def commonPrefixLenIgnoreCase : Bytes → Bytes → Nat
  | c :: s, p :: ps => if lowerB c = p then commonPrefixLenIgnoreCase s ps + 1 else 0
  | _, _ => 0

def strInfinity : Bytes := [105, 110, 102, 105, 110, 105, 116, 121]
def strNan : Bytes := [110, 97, 110]

/-- `special(s)`: `some n` when a prefix of length n is inf / infinity / nan (sign allowed on inf only,
    exactly as the Go `switch` with its `fallthrough`). -/
def special (s : Bytes) : Option Nat :=
  let infLen (t : Bytes) : Option Nat :=
    let n := commonPrefixLenIgnoreCase t strInfinity
    let n := if 3 < n ∧ n < 8 then 3 else n
    if n = 3 ∨ n = 8 then some n else none
  match s with
  | [] => none
  | c :: t =>
    if c = 43 ∨ c = 45 then (infLen t).map (· + 1)
    else if c = 105 ∨ c = 73 then infLen (c :: t)
    else if c = 110 ∨ c = 78 then (if commonPrefixLenIgnoreCase (c :: t) strNan = 3 then some 3 else none)
    else none

def isHexLetter (c : Nat) : Bool := (65 ≤ c && c ≤ 70) || (97 ≤ c && c ≤ 102)
def hexLetterVal (c : Nat) : Nat := if c ≤ 70 then c - 55 else c - 87

/-- state of `readFloat`'s mantissa loop -/
structure Mant where
  sawdot : Bool := false
  sawdigits : Bool := false
  /-- all mantissa digits as an integer in the base (no truncation) -/
  val : Nat := 0
  /-- number of digits after the dot -/
  nfrac : Nat := 0
  deriving Repr

/-- the mantissa loop of `readFloat`: consumes digits, `_`, one `.`, and hex letters when `hex`. Returns the
    state and the unconsumed rest. -/
def readMant (hex : Bool) : Mant → Bytes → Mant × Bytes
  | st, [] => (st, [])
  | st, c :: t =>
    if c = 95 then readMant hex st t
    else if c = 46 then
      if st.sawdot then (st, c :: t) else readMant hex { st with sawdot := true } t
    else if isDigit c then
      readMant hex { st with sawdigits := true, val := st.val * (if hex then 16 else 10) + (c - 48),
                             nfrac := if st.sawdot then st.nfrac + 1 else st.nfrac } t
    else if hex && isHexLetter c then
      readMant hex { st with sawdigits := true, val := st.val * 16 + hexLetterVal c,
                             nfrac := if st.sawdot then st.nfrac + 1 else st.nfrac } t
    else (st, c :: t)

/-- exponent digits: `for ; i < len(s) && (digit || '_')` with Go's cap `if e < 10000 { e = e*10 + d }` -/
def readExpDigits : Nat → Bytes → Nat × Bytes
  | e, [] => (e, [])
  | e, c :: t =>
    if c = 95 then readExpDigits e t
    else if isDigit c then readExpDigits (if e < 10000 then e * 10 + (c - 48) else e) t
    else (e, c :: t)

/-- `underscoreOK(s)` of strconv/atoi.go. `saw`: 0 = '^', 1 = '0', 2 = '_', 3 = '!'. -/
def underscoreLoop (hex : Bool) : Nat → Bytes → Bool
  | saw, [] => saw != 2
  | saw, c :: t =>
    if isDigit c || (hex && isHexLetter c) then underscoreLoop hex 1 t
    else if c = 95 then (if saw != 1 then false else underscoreLoop hex 2 t)
    else if saw = 2 then false
    else underscoreLoop hex 3 t

def underscoreOK (s : Bytes) : Bool :=
  let s := match s with
    | c :: t => if c = 45 ∨ c = 43 then t else c :: t
    | [] => []
  match s with
  | 48 :: x :: t =>
    let lx := orBit5 x
    if lx = 98 ∨ lx = 111 ∨ lx = 120 then underscoreLoop (lx = 120) 1 t
    else underscoreLoop false 0 (48 :: x :: t)
  | _ => underscoreLoop false 0 s

/-- 2^1024 − 2^970: the least magnitude that rounds (to nearest, ties to even) to +Inf in float64 -/
def overflowThreshold : Nat := 2 ^ 1024 - 2 ^ 970

/-- does `val · base^(e) · unit^(−nfrac)` (base 10: unit 10; hex: base 2, unit 16) reach the overflow threshold?
    `e` is the (capped) signed exponent. Exact integer arithmetic; the `ndigits` shortcut only avoids huge powers
    and agrees with the exact comparison. -/
def overflows (hex : Bool) (val nfrac : Nat) (eNeg : Bool) (e : Nat) : Bool :=
  if val = 0 then false else
  -- x = exponent of the base applied to val:  base 10: (±e) − nfrac ;  hex: (±e) − 4·nfrac  (base 2)
  let b : Nat := if hex then 2 else 10
  let sub : Nat := if hex then 4 * nfrac else nfrac
  -- pos − neg is the signed exponent
  let pos : Nat := if eNeg then 0 else e
  let neg : Nat := if eNeg then e + sub else sub
  if pos ≥ neg then
    let x := pos - neg
    if x > 1100 then true else decide (val * b ^ x ≥ overflowThreshold)
  else
    let x := neg - pos
    -- val / b^x ≥ T  ⇔  val ≥ T · b^x ; impossible when b^x alone exceeds val
    if x > Nat.log2 val + 1 then false else decide (val ≥ overflowThreshold * b ^ x)

/-- `readFloat`: the optional sign -/
def stripSign (s : Bytes) : Bytes :=
  match s with
  | c :: t => if c = 43 ∨ c = 45 then t else c :: t
  | [] => []

/-- `readFloat`: the base prefix, `i+2 < len(s) && s[i] == '0' && lower(s[i+1]) == 'x'` -/
def stripHex (body : Bytes) : Bool × Bytes :=
  match body with
  | 48 :: x :: y :: t => if orBit5 x = 120 then (true, y :: t) else (false, body)
  | _ => (false, body)

/-- `readFloat`: what follows the mantissa. `some (eNeg, e)` when `rest` is empty (decimal only: "hexadecimal mantissa
    requires a 'p' exponent") or is a complete exponent `[eEpP][+-]?[0-9][0-9_]*`; `none` when readFloat fails or
    does not consume everything (ParseFloat: `n != len(s)`). -/
def readExponent (hex : Bool) (rest : Bytes) : Option (Bool × Nat) :=
  match rest with
  | [] => if hex then none else some (false, 0)
  | c :: t =>
    if orBit5 c = (if hex then 112 else 101) then
      match t with
      | [] => none
      | d :: t' =>
        let t2 := if d = 43 ∨ d = 45 then t' else d :: t'
        match t2 with
        | [] => none
        | d2 :: _ =>
          if !isDigit d2 then none else
          let r := readExpDigits 0 t2
          if r.2.isEmpty then some (decide (d = 45), r.1) else none
    else none

/-- `readFloat` succeeds and consumes the whole string, and the value does not overflow float64. -/
def readFloatOk (s : Bytes) : Bool :=
  if s.isEmpty then false else
  let hd := stripHex (stripSign s)
  let mr := readMant hd.1 {} hd.2
  if !mr.1.sawdigits then false else
  match readExponent hd.1 mr.2 with
  | none => false
  | some (eNeg, e) =>
    -- `underscores && !underscoreOK(s[:i])`, then the range error of atof64 / atofHex
    (!s.contains 95 || underscoreOK s) && !overflows hd.1 mr.1.val mr.1.nfrac eNeg e

/-- `[0-9A-Za-z+-._]` -/
def floatByte (c : Nat) : Bool :=
  isDigit c || isAlpha c || c == 43 || c == 45 || c == 46 || c == 95

/-- `strconv.ParseFloat(s, 64)` returns a nil error -/
def parseFloatOk (s : Bytes) : Bool :=
  match special s with
  | some n => n = s.length
  | none => readFloatOk s

/-- Go `isOptionalSrcMetadataWellFormed`, over an arbitrary ParseFloat acceptor -/
def metadataWellFormedWith (pf : Bytes → Bool) (metadata : Bytes) : Bool :=
  match metadata.getLast? with
  | none => true
  | some last =>
    let l := orBit5 last
    let metadataPrefix := if 97 ≤ l ∧ l ≤ 122 then metadata.dropLast else metadata
    pf metadataPrefix

def isOptionalSrcMetadataWellFormed (metadata : Bytes) : Bool :=
  metadataWellFormedWith parseFloatOk metadata

/-- one iteration's "append sanitized content onto buffer" -/
def appendCandidate (safe pf : Bytes → Bool) (buffer url metadata : Bytes) : Bytes :=
  if url ≠ [] ∧ safe url = true ∧ metadataWellFormedWith pf metadata = true then
    let buffer := if buffer ≠ [] then buffer ++ separator else buffer
    let buffer := buffer ++ appendURLToSet url
    if metadata ≠ [] then buffer ++ [32] ++ metadata else buffer
  else buffer

/-- "Consume one image candidate": the five `consumeIn` / `consumeNotIn` calls at the top of the loop body.
    Returns url, metadata and the remaining string. -/
def consumeCandidate (str : Bytes) : Bytes × Bytes × Bytes :=
  let str := (consumeIn str asciiWhitespace).2
  let (url, str) := consumeNotIn str asciiWhitespace
  let str := (consumeIn str asciiWhitespace).2
  let (metadata, str) := consumeNotIn str srcsetMetachars
  let str := (consumeIn str asciiWhitespace).2
  (url, metadata, str)

/-- the `for len(str) != 0` loop of URLSetSanitized; returns the buffer -/
def sanitizeLoop (safe pf : Bytes → Bool) : Nat → Bytes → Bytes → Bytes
  | 0, _, buffer => buffer
  | fuel + 1, str, buffer =>
    if str = [] then buffer else
    let (url, metadata, str) := consumeCandidate str
    let buffer := appendCandidate safe pf buffer url metadata
    -- "Consume any trailing comma"
    match str with
    | [] => buffer                                                    -- len(str) == 0: break
    | c :: rest => if c = 44 then sanitizeLoop safe pf fuel rest buffer else buffer   -- str[0] != ',': break

def urlSetSanitizedWith (safe pf : Bytes → Bool) (str : Bytes) : Bytes :=
  let buffer := sanitizeLoop safe pf (str.length + 1) str []
  if buffer = [] then Generated.Tables.innocuousURL else buffer

/-- Go `URLSetSanitized(str).String()` -/
def urlSetSanitized (str : Bytes) : Bytes :=
  urlSetSanitizedWith Model.isSafeURL parseFloatOk str

end SafeHtml.Model.UrlSet
