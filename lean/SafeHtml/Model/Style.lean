/- Model of style.go: StyleFromConstant's checks, StyleFromProperties, filter, cssEscapeString.
   The field chain, property names and literal pieces come from `Generated.StyleFields`;
   the three regexes from `Generated.Regexes`; `URLSanitized` is `Model.urlSanitized`. -/
import SafeHtml.Generated.Regexes
import SafeHtml.Generated.Tables
import SafeHtml.Generated.StyleFields
import SafeHtml.Model.Url
namespace SafeHtml.Model
open SafeHtml SafeHtml.Generated.Regexes SafeHtml.Generated.StyleFields

/-- `fmt.Fprintf(&b, "\\%06X", c)` for a rune `c ≤ 0x10FFFF` -/
def hex6Upper (c : Nat) : Bytes :=
  [92, hexDigitUpper (c / 1048576 % 16), hexDigitUpper (c / 65536 % 16), hexDigitUpper (c / 4096 % 16),
       hexDigitUpper (c / 256 % 16), hexDigitUpper (c / 16 % 16), hexDigitUpper (c % 16)]

/-- which runes `cssEscapeString` writes as `\XXXXXX` -/
def cssMustEscape (c : Nat) : Bool :=
  c == 60 || c == 34 || c == 92 || c ≤ 0x1F || c == 0x7F || (0x80 ≤ c && c ≤ 0x9F) || c == 0x2028 || c == 0x2029

/-- one rune of `cssEscapeString`, as code points -/
def cssEscapeRuneR (c : Nat) : List Nat :=
  if c == 0 then [0xFFFD]
  else if cssMustEscape c then hex6Upper c
  else [c]

/-- one rune of `cssEscapeString`, as bytes (`WriteString("�")`, `Fprintf`, `WriteRune`) -/
def cssEscapeRune (c : Nat) : Bytes :=
  if c == 0 then [0xEF, 0xBF, 0xBD]
  else if cssMustEscape c then hex6Upper c
  else Utf8.encodeRune c

/-- `for _, c := range s` -/
def cssEscapeString (s : Bytes) : Bytes := (Utf8.decodeRunes s).flatMap cssEscapeRune

def filter (value : Bytes) (pattern : Rx.Re) : Bytes :=
  if !Rx.matchString pattern value then Generated.Tables.innocuousPropertyValue else value

structure StyleProps where
  lists : List (String × List Bytes)   -- Go field name ↦ slice
  vals : List (String × Bytes)         -- Go field name ↦ string
  deriving Repr

def StyleProps.list (p : StyleProps) (n : String) : List Bytes :=
  match p.lists.find? (fun e => e.1 == n) with
  | some e => e.2
  | none => []

def StyleProps.val (p : StyleProps) (n : String) : Bytes :=
  match p.vals.find? (fun e => e.1 == n) with
  | some e => e.2
  | none => []

/-- elements joined by `listSep` (`if i > 0 { WriteString(", ") }`) -/
def joinSep (sep : Bytes) : List Bytes → Bytes
  | [] => []
  | [x] => x
  | x :: y :: t => x ++ sep ++ joinSep sep (y :: t)

def urlItem (u : Bytes) : Bytes := urlOpen ++ cssEscapeString (urlSanitized u) ++ urlClose

/-- `name[1 : len(name)-1]` when `len(name) ≥ 3` and it starts and ends with `"` -/
def unquoteFont (name : Bytes) : Bytes :=
  if name.length ≥ 3 && name.head? == some 34 && name.getLast? == some 34 then
    (name.drop 1).take (name.length - 2)
  else name

def fontItem (name : Bytes) : Bytes :=
  if Rx.matchString safehtml_identifierPattern name then name
  else fontOpen ++ cssEscapeString (unquoteFont name) ++ fontClose

/-- the value text emitted for a field, `none` if the field is empty (nothing is emitted) -/
def fieldValue (p : StyleProps) (f : Field) : Option Bytes :=
  match f.kind with
  | .urlList => if (p.list f.goName).isEmpty then none else some (joinSep listSep ((p.list f.goName).map urlItem))
  | .fontList => if (p.list f.goName).isEmpty then none else some (joinSep listSep ((p.list f.goName).map fontItem))
  | .enum => if (p.val f.goName).isEmpty then none else some (filter (p.val f.goName) safehtml_safeEnumPropertyValuePattern)
  | .regular => if (p.val f.goName).isEmpty then none else some (filter (p.val f.goName) safehtml_safeRegularPropertyValuePattern)

def emitField (p : StyleProps) (f : Field) : Bytes :=
  match fieldValue p f with
  | none => []
  | some v => f.css ++ [58] ++ v ++ [59]

def styleFromPropertiesWith (fs : List Field) (p : StyleProps) : Bytes := fs.flatMap (emitField p)

def styleFromProperties (p : StyleProps) : Bytes := styleFromPropertiesWith fields p

/-- `StyleFromConstant`: `none` = panic -/
def styleFromConstant (s : Bytes) : Option Bytes :=
  if s.any (fun c => c == 60 || c == 62) then none
  else if s.getLast? != some 59 then none
  else if !s.contains 58 then none
  else some s

end SafeHtml.Model
