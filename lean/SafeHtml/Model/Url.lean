/- Model of url.go: URLSanitized / isSafeURL. `strings.ToLower` is a parameter-free model:
   per-rune lowering through `lowerRune`, which the harness validates against the real
   `strings.ToLower` (see Spec note in Props/C11). -/
import SafeHtml.Generated.Regexes
import SafeHtml.Generated.Tables
namespace SafeHtml.Model
open SafeHtml SafeHtml.Generated.Regexes

/-- the only non-ASCII runes whose Go lower-case form is ASCII: U+0130 'İ' ↦ 'i', U+212A 'K' ↦ 'k'.
    Everything else ≥ 128 stays ≥ 128 (validated exhaustively over all runes by the harness). -/
def lowerRuneAsciiImage (r : Nat) : Option Nat :=
  if r = 0x130 then some 105 else if r = 0x212A then some 107 else none

/-- What `isSafeURL` needs from `strings.ToLower`: the string with ASCII upper-case lowered and the two
    special runes mapped to ASCII; other non-ASCII runes are kept (their exact lower-case form is
    irrelevant to `safeURLPattern`, see `Props/C11`). Invalid bytes become U+FFFD. -/
def toLowerForScheme (s : Bytes) : Bytes :=
  (Utf8.decodeSyms s).flatMap fun x =>
    if x.rune < 128 then [asciiLower x.rune]
    else match lowerRuneAsciiImage x.rune with
      | some a => [a]
      | none => Utf8.encodeRune x.rune

def jsScheme : Bytes := [106, 97, 118, 97, 115, 99, 114, 105, 112, 116]

def isSafeURL (url : Bytes) : Bool :=
  match Rx.findSubmatch safehtml_safeURLPattern safehtml_safeURLPattern_ncap (toLowerForScheme url) with
  | none => false
  | some [_, some sch] => sch != jsScheme
  | some [_, none] => true   -- Go: submatches[1] == "" ≠ "javascript"
  | some _ => false

def urlSanitized (url : Bytes) : Bytes :=
  if isSafeURL url then url else Generated.Tables.innocuousURL

end SafeHtml.Model
