/- Data values bound to template actions, and the run-time sanitizer functions of template/sanitizers.go. -/
import SafeHtml.Model.Html
import SafeHtml.Model.Url
import SafeHtml.Model.UrlSet
import SafeHtml.Model.UrlUtil
import SafeHtml.Generated.Policy
namespace SafeHtml.Model.Tmpl
open SafeHtml SafeHtml.Generated.Policy

inductive SafeT where
  | HTML | Script | Style | StyleSheet | URL | TrustedResourceURL | Identifier | URLSet
  deriving DecidableEq, Repr, Inhabited

mutual
inductive Value where
  | str (b : Bytes)
  | safe (t : SafeT) (b : Bytes)
  | int (i : Int)
  | bool (b : Bool)
  | nil                         -- a nil interface value present in the data
  | noValue                     -- reflect's invalid Value: nil data, missing map key, `{{template "x"}}` without pipeline
  | list (vs : ValueList)
  | map (kvs : KVList)          -- map[string]interface{}; keys sorted by the harness
  | ptr (v : Value)             -- non-nil pointer
inductive ValueList where
  | nil
  | cons (v : Value) (vs : ValueList)
inductive KVList where
  | nil
  | cons (k : String) (v : Value) (kvs : KVList)
end

instance : Inhabited Value := ⟨.nil⟩

def ValueList.toList : ValueList → List Value
  | .nil => []
  | .cons v vs => v :: vs.toList

def KVList.toList : KVList → List (String × Value)
  | .nil => []
  | .cons k v r => (k, v) :: r.toList

def KVList.get (k : String) : KVList → Option Value
  | .nil => none
  | .cons k' v r => if k == k' then some v else r.get k

/-- safehtmlutil.Indirect: follow pointers -/
def Value.indirect : Value → Value
  | .ptr v => v.indirect
  | v => v

def natDigits (n : Nat) : Bytes := (toString n).toList.map Char.toNat
def intBytes (i : Int) : Bytes := (toString i).toList.map Char.toNat

/-- fmt.Sprint of one operand (after indirectToStringerOrError); `none` = not modelled -/
def Value.sprint : Value → Option Bytes
  | .str b => some b
  | .safe _ b => some b
  | .int i => some (intBytes i)
  | .bool b => some (if b then [116, 114, 117, 101] else [102, 97, 108, 115, 101])
  | .nil => some [60, 110, 105, 108, 62]
  | .noValue => some [60, 110, 105, 108, 62]
  | .ptr v =>
    match v with
    | .safe _ b => some b             -- *T implements Stringer
    | .str b => some b                -- indirectToStringerOrError dereferences *string
    | .int i => some (intBytes i)
    | .bool b => some (if b then [116, 114, 117, 101] else [102, 97, 108, 115, 101])
    | .ptr w => (Value.ptr w).sprint
    | _ => none
  | _ => none

/-- Stringify(args...) for a single argument -/
def stringify (v : Value) : Option Bytes := v.sprint

inductive RunErr where
  | sanitizer        -- a sanitizer function returned an error (typed-only context got an untrusted value…)
  | unsupported      -- outside the modelled fragment
  deriving DecidableEq, Repr

def enumCheck (tbl : List (Nat × List Nat)) (v : Value) : Except RunErr Bytes :=
  match stringify v with
  | none => .error .unsupported
  | some s => if tbl.any (fun r => r.2 == s) then .ok s else .error .sanitizer

def typedOnly (ts : List SafeT) (v : Value) : Except RunErr Bytes :=
  match v.indirect with
  | .safe t b => if ts.contains t then .ok b else .error .sanitizer
  | _ => .error .sanitizer

def typedOr (ts : List SafeT) (f : Bytes → Bytes) (v : Value) : Except RunErr Bytes :=
  match v.indirect with
  | .safe t b => if ts.contains t then .ok b else
      match stringify v with
      | some s => .ok (f s)
      | none => .error .unsupported
  | _ =>
    match stringify v with
    | some s => .ok (f s)
    | none => .error .unsupported

/-- one reserved function applied to the pipeline value -/
def runFn (name : String) (v : Value) : Except RunErr Value :=
  let strv (r : Except RunErr Bytes) : Except RunErr Value := r.map Value.str
  match name with
  | "_sanitizeHTML" => strv (typedOr [.HTML] htmlEscaped v)
  | "_sanitizeRCDATA" => strv (match stringify v with | some s => .ok (htmlEscaped s) | none => .error .unsupported)
  | "_sanitizeHTMLValOnly" => strv (typedOnly [.HTML] v)
  | "_sanitizeIdentifier" => strv (typedOnly [.Identifier] v)
  | "_sanitizeScript" => strv (typedOnly [.Script] v)
  | "_sanitizeStyle" => strv (typedOnly [.Style] v)
  | "_sanitizeStyleSheet" => strv (typedOnly [.StyleSheet] v)
  | "_sanitizeTrustedResourceURL" => strv (typedOnly [.TrustedResourceURL] v)
  | "_sanitizeTrustedResourceURLOrURL" => strv (typedOr [.TrustedResourceURL, .URL] urlSanitized v)
  | "_sanitizeURL" => strv (typedOr [.URL] urlSanitized v)
  | "_sanitizeURLSet" => strv (match stringify v with | some s => .ok (Model.UrlSet.urlSetSanitized s) | none => .error .unsupported)
  | "_sanitizeAsyncEnum" => strv (enumCheck asyncEnumValues v)
  | "_sanitizeDirEnum" => strv (enumCheck dirEnumValues v)
  | "_sanitizeLoadingEnum" => strv (enumCheck loadingEnumValues v)
  | "_sanitizeTargetEnum" => strv (enumCheck targetEnumValues v)
  | "_sanitizeHTMLComment" => .ok (.str [])
  | "_queryEscapeURL" => strv (match stringify v with | some s => .ok (queryEscapeURL s) | none => .error .unsupported)
  | "_normalizeURL" => strv (match stringify v with | some s => .ok (normalizeURL s) | none => .error .unsupported)
  | "_validateTrustedResourceURLSubstitution" =>
    strv (match stringify v with
      | some s => if urlContainsDoubleDotSegment s then .error .sanitizer else .ok s
      | none => .error .unsupported)
  | "_evalArgs" => strv (match stringify v with | some s => .ok s | none => .error .unsupported)
  | _ => .error .unsupported

def runChain : List String → Value → Except RunErr Value
  | [], v => .ok v
  | f :: fs, v => do
    let v' ← runFn f v
    runChain fs v'

end SafeHtml.Model.Tmpl
