/- Model of template/context.go and template/error.go (error codes only). -/
import SafeHtml.Basic.Utf8
import SafeHtml.Generated.Policy
namespace SafeHtml.Model.Tmpl
open SafeHtml

inductive State where
  | text | specialBody | tag | attrName | afterName | beforeValue | htmlCmt | attr | error
  deriving DecidableEq, Repr, Inhabited

/-- `state.String()` as used by `mangle` -/
def State.str : State → String
  | .text => "StateText" | .specialBody => "StateSpecialElementBody" | .tag => "StateTag"
  | .attrName => "StateAttrName" | .afterName => "StateAfterName" | .beforeValue => "StateBeforeValue"
  | .htmlCmt => "StateHTMLCmt" | .attr => "StateAttr" | .error => "StateError"

inductive Delim where
  | none | dq | sq | spaceOrTagEnd
  deriving DecidableEq, Repr, Inhabited

def Delim.str : Delim → String
  | .none => "DelimNone" | .dq => "DelimDoubleQuote" | .sq => "DelimSingleQuote"
  | .spaceOrTagEnd => "DelimSpaceOrTagEnd"

/-- template.ErrorCode (class of an analysis error; message text is never modelled) -/
inductive ErrCode where
  | ambigContext | badHTML | branchEnd | endContext | noSuchTemplate | outputContext
  | partialCharset | partialEscape | rangeLoopReentry | slashAmbig | predefinedEscaper
  | escapeAction | cspCompatibility | unbalancedJsTemplate
  deriving DecidableEq, Repr, Inhabited

def ErrCode.str : ErrCode → String
  | .ambigContext => "ErrAmbigContext" | .badHTML => "ErrBadHTML" | .branchEnd => "ErrBranchEnd"
  | .endContext => "ErrEndContext" | .noSuchTemplate => "ErrNoSuchTemplate"
  | .outputContext => "ErrOutputContext" | .partialCharset => "ErrPartialCharset"
  | .partialEscape => "ErrPartialEscape" | .rangeLoopReentry => "ErrRangeLoopReentry"
  | .slashAmbig => "ErrSlashAmbig" | .predefinedEscaper => "ErrPredefinedEscaper"
  | .escapeAction => "ErrEscapeAction" | .cspCompatibility => "ErrCSPCompatibility"
  | .unbalancedJsTemplate => "ErrUnbalancedJsTemplate"

structure Ctx where
  state : State := .text
  delim : Delim := .none
  elemName : Bytes := []
  elemNames : List Bytes := []
  attrName : Bytes := []
  attrValue : Bytes := []
  ambiguous : Bool := false
  attrNames : List Bytes := []
  err : Option ErrCode := none
  scriptType : Bytes := []
  linkRel : Bytes := []
  deriving Repr, Inhabited, DecidableEq

def Ctx.errorCtx (e : ErrCode) : Ctx := { state := .error, err := some e }

/-- `context.eq`: names lists, value and ambiguity are ignored; `err` is pointer equality in Go —
    two contexts compare equal only when neither carries an error (distinct errors are distinct pointers). -/
def Ctx.eq (c d : Ctx) : Bool :=
  c.state == d.state && c.delim == d.delim && c.elemName == d.elemName && c.attrName == d.attrName &&
  c.err.isNone && d.err.isNone && c.scriptType == d.scriptType && c.linkRel == d.linkRel

def isComment (s : State) : Bool := s == .htmlCmt

def isInTag (s : State) : Bool :=
  s == .tag || s == .attrName || s == .afterName || s == .beforeValue || s == .attr

/-- ASCII lowering plus the two non-ASCII runes whose Go lower-case form is ASCII (U+0130, U+212A);
    invalid bytes become U+FFFD as in `strings.ToLower`. Other non-ASCII runes are kept (approximation,
    invisible to every table lookup; see DESIGN.md trusted base). -/
def goToLower (s : Bytes) : Bytes :=
  if s.all (· < 128) then s.map asciiLower else
  (Utf8.decodeSyms s).flatMap fun x =>
    if x.rune < 128 then [asciiLower x.rune]
    else if x.rune = 0x130 then [105] else if x.rune = 0x212A then [107]
    else Utf8.encodeRune x.rune

/-- strings.Title on an ASCII-leading name as used by `element.String()`/`attr.String()` (first letter upper) -/
def titleAscii (s : Bytes) : Bytes :=
  match s with
  | [] => []
  | c :: t => (if isLowerAlpha c then c - 32 else c) :: t

def strOfBytes (b : Bytes) : String := String.ofList (b.map Char.ofNat)

end SafeHtml.Model.Tmpl
