/- Wire formats of the line protocol: parse trees (as the real text/template parser produced them)
   and data values. Token based; every parser consumes fuel and returns `none` on malformed input. -/
import SafeHtml.Model.Tmpl.Ast
import SafeHtml.Model.Tmpl.Value
import SafeHtml.Model.Tmpl.Ctx
namespace SafeHtml.Model.Tmpl
open SafeHtml

abbrev Toks := List String

def tokenize (b : Bytes) : Toks :=
  ((String.ofList (b.map Char.ofNat)).splitOn " ").filter (· ≠ "")

def hexStr (s : String) : Option String := (unhex s).map strOfBytes

def takeNames : Nat → Toks → Option (List String × Toks)
  | 0, ts => some ([], ts)
  | n+1, t :: ts => do
    let name ← hexStr t
    let (r, ts') ← takeNames n ts
    pure (name :: r, ts')
  | _, [] => none

def parseArg : Toks → Option (Arg × Toks)
  | "f" :: n :: ts => do
    let (ns, ts') ← takeNames (← n.toNat?) ts
    pure (.field ns, ts')
  | "v" :: n :: ts => do
    let (ns, ts') ← takeNames (← n.toNat?) ts
    pure (.var ns, ts')
  | "i" :: name :: ts => do pure (.ident (← hexStr name), ts)
  | "d" :: ts => some (.dot, ts)
  | "s" :: h :: ts => do pure (.str (← unhex h), ts)
  | "n" :: h :: ts => do pure (.num (← hexStr h), ts)
  | "b" :: "0" :: ts => some (.bool false, ts)
  | "b" :: "1" :: ts => some (.bool true, ts)
  | "z" :: ts => some (.nil, ts)
  | "o" :: k :: ts => some (.other k, ts)
  | _ => none

def parseArgs : Nat → Toks → Option (List Arg × Toks)
  | 0, ts => some ([], ts)
  | n+1, ts => do
    let (a, ts1) ← parseArg ts
    let (r, ts2) ← parseArgs n ts1
    pure (a :: r, ts2)

def parseCmds : Nat → Toks → Option (List Cmd × Toks)
  | 0, ts => some ([], ts)
  | n+1, "c" :: k :: ts => do
    let (as, ts1) ← parseArgs (← k.toNat?) ts
    let (r, ts2) ← parseCmds n ts1
    pure ({ args := as } :: r, ts2)
  | _, _ => none

/-- `P <ndecl> decl-names… <ncmds> cmds…` -/
def parsePipe : Toks → Option (Pipe × Toks)
  | "P" :: nd :: ts => do
    let (decl, ts1) ← takeNames (← nd.toNat?) ts
    match ts1 with
    | nc :: ts2 => do
      let (cmds, ts3) ← parseCmds (← nc.toNat?) ts2
      pure ({ decl := decl, cmds := cmds }, ts3)
    | [] => none
  | _ => none

mutual
/-- returns (node, next id, rest) -/
def parseNode : Nat → Nat → Toks → Option (Node × Nat × Toks)
  | 0, _, _ => none
  | f+1, id, ts =>
    match ts with
    | "T" :: h :: r => do pure (.text id (← unhex h), id + 1, r)
    | "A" :: r => do
      let (p, r1) ← parsePipe r
      pure (.action id p, id + 1, r1)
    | "I" :: r => do
      let (p, r1) ← parsePipe r
      let (t, id1, r2) ← parseList f (id + 1) r1
      let (e, id2, r3) ← parseList f id1 r2
      pure (.ifN id p t e, id2, r3)
    | "R" :: r => do
      let (p, r1) ← parsePipe r
      let (t, id1, r2) ← parseList f (id + 1) r1
      let (e, id2, r3) ← parseList f id1 r2
      pure (.rangeN id p t e, id2, r3)
    | "W" :: r => do
      let (p, r1) ← parsePipe r
      let (t, id1, r2) ← parseList f (id + 1) r1
      let (e, id2, r3) ← parseList f id1 r2
      pure (.withN id p t e, id2, r3)
    | "C" :: name :: "-" :: r => do pure (.tmpl id (← hexStr name) none, id + 1, r)
    | "C" :: name :: r => do
      let (p, r1) ← parsePipe r
      pure (.tmpl id (← hexStr name) (some p), id + 1, r1)
    | "B" :: r => some (.brk id, id + 1, r)
    | "K" :: r => some (.cont id, id + 1, r)
    | "M" :: r => some (.comment id, id + 1, r)
    | _ => none
/-- `[ node* ]` -/
def parseList : Nat → Nat → Toks → Option (NodeList × Nat × Toks)
  | 0, _, _ => none
  | f+1, id, ts =>
    match ts with
    | "[" :: r => parseItems f id r
    | _ => none
def parseItems : Nat → Nat → Toks → Option (NodeList × Nat × Toks)
  | 0, _, _ => none
  | f+1, id, ts =>
    match ts with
    | "]" :: r => some (.nil, id, r)
    | _ => do
      let (n, id1, r1) ← parseNode f id ts
      let (ns, id2, r2) ← parseItems f id1 r1
      pure (.cons n ns, id2, r2)
end

/-- `D <namehex> [ nodes ]`* -/
def parseDefs : Nat → Toks → Option (List Tree)
  | 0, _ => none
  | _, [] => some []
  | f+1, "D" :: name :: ts => do
    let (root, _, r) ← parseList (ts.length + 1) 0 ts
    let rest ← parseDefs f r
    pure ({ name := (← hexStr name), root := root } :: rest)
  | _, _ => none

def parseDefsBytes (b : Bytes) : Option (List Tree) :=
  let ts := tokenize b
  parseDefs (ts.length + 1) ts

/-! ### data values -/

def safeOfTag : String → Option SafeT
  | "H" => some .HTML | "S" => some .Script | "Y" => some .Style | "E" => some .StyleSheet
  | "U" => some .URL | "R" => some .TrustedResourceURL | "I" => some .Identifier | "X" => some .URLSet
  | _ => none

mutual
def parseValue : Nat → Toks → Option (Value × Toks)
  | 0, _ => none
  | f+1, ts =>
    match ts with
    | "s" :: h :: r => do pure (.str (← unhex h), r)
    | "t" :: tag :: h :: r => do pure (.safe (← safeOfTag tag) (← unhex h), r)
    | "i" :: n :: r => do pure (.int (← n.toInt?), r)
    | "b" :: "0" :: r => some (.bool false, r)
    | "b" :: "1" :: r => some (.bool true, r)
    | "n" :: r => some (.nil, r)
    -- a value of numeric or bool kind with a String()/Error() method printing the text: for every sanitizer (all go
    -- through fmt.Sprint) it is the string; it is true in conditions like the non-empty string
    | "g" :: h :: r => do pure (.str (← unhex h), r)
    -- a typed nil pointer: prints <nil>, false in conditions
    | "N" :: r => some (.nil, r)
    | "p" :: r => do
      let (v, r1) ← parseValue f r
      pure (.ptr v, r1)
    | "l" :: "[" :: r => do
      let (vs, r1) ← parseVals f r
      pure (.list vs, r1)
    | "m" :: "{" :: r => do
      let (kvs, r1) ← parseKVs f r
      pure (.map kvs, r1)
    | _ => none
def parseVals : Nat → Toks → Option (ValueList × Toks)
  | 0, _ => none
  | f+1, ts =>
    match ts with
    | "]" :: r => some (.nil, r)
    | _ => do
      let (v, r1) ← parseValue f ts
      let (vs, r2) ← parseVals f r1
      pure (.cons v vs, r2)
def parseKVs : Nat → Toks → Option (KVList × Toks)
  | 0, _ => none
  | f+1, ts =>
    match ts with
    | "}" :: r => some (.nil, r)
    | k :: r => do
      let key ← hexStr k
      let (v, r1) ← parseValue f r
      let (kvs, r2) ← parseKVs f r1
      pure (.cons key v kvs, r2)
    | [] => none
end

def parseValueBytes (b : Bytes) : Option Value :=
  let ts := tokenize b
  match parseValue (ts.length + 1) ts with
  | some (.nil, []) => some .noValue     -- top-level nil data is reflect's invalid Value
  | some (v, []) => some v
  | _ => none

end SafeHtml.Model.Tmpl
