/- Model of template/transition.go. Every function returns (context, number of bytes consumed). -/
import SafeHtml.Model.Tmpl.Ctx
namespace SafeHtml.Model.Tmpl
open SafeHtml SafeHtml.Generated.Policy

def indexByte (b : Nat) : Bytes → Option Nat
  | [] => none
  | c :: t => if c == b then some 0 else (indexByte b t).map (· + 1)

def indexAny (set : List Nat) : Bytes → Option Nat
  | [] => none
  | c :: t => if set.contains c then some 0 else (indexAny set t).map (· + 1)

def indexSub (needle : Bytes) : Bytes → Option Nat
  | [] => if needle.isEmpty then some 0 else none
  | c :: t => if needle.isPrefixOf (c :: t) then some 0 else (indexSub needle t).map (· + 1)

def memKey (tbl : List (Nat × List Nat)) (name : Bytes) : Bool :=
  tbl.any fun r => r.2 == name

def asciiAlphaNum (c : Nat) : Bool := isAlpha c || isDigit c

/-- number of leading white-space bytes (eatWhiteSpace) -/
def eatWhiteSpace : Bytes → Nat
  | [] => 0
  | c :: t => if whiteSpace.contains c then eatWhiteSpace t + 1 else 0

/-- eatAttrName from offset 0: `some n` = name ends after n bytes, `none` = ErrBadHTML -/
def eatAttrName : Bytes → Option Nat
  | [] => some 0
  | c :: t =>
    if attrNameEnd.contains c then some 0
    else if attrNameBad.contains c then none
    else (eatAttrName t).map (· + 1)

/-- the loop of eatTagName after the first letter -/
def eatTagNameRest : Nat → Bytes → Nat
  | 0, _ => 0
  | _, [] => 0
  | f+1, x :: t =>
    if asciiAlphaNum x then eatTagNameRest f t + 1
    else if x == 58 || x == 45 then
      match t with
      | y :: t' => if asciiAlphaNum y then eatTagNameRest f t' + 2 else 0
      | [] => 0
    else 0

/-- eatTagName from offset 0: (bytes consumed, lower-cased name) -/
def eatTagName (s : Bytes) : Nat × Bytes :=
  match s with
  | [] => (0, [])
  | c :: t =>
    if !isAlpha c then (0, [])
    else
      let n := eatTagNameRest t.length t + 1
      (n, goToLower (s.take n))

def tTextGo (c : Ctx) : Nat → Nat → Bytes → Ctx × Nat
  | 0, off, s => (c, off + s.length)
  | f+1, off, s =>
    match indexByte 60 s with
    | none => (c, off + s.length)
    | some n =>
      let r := s.drop (n + 1)            -- after '<'
      if r.isEmpty then (c, off + s.length)
      else if commentStart.isPrefixOf (s.drop n) then ({ state := .htmlCmt }, off + n + 4)
      else
        let isEnd := r.head? == some 47
        let r' := if isEnd then r.drop 1 else r
        let skip := if isEnd then 2 else 1
        if isEnd && r'.isEmpty then (c, off + s.length)
        else
          let (m, name) := eatTagName r'
          if m != 0 then
            ({ state := .tag, elemName := if isEnd then [] else name }, off + n + skip + m)
          else tTextGo c f (off + n + skip) r'

def tText (c : Ctx) (s : Bytes) : Ctx × Nat := tTextGo c (s.length + 1) 0 s

def tTag (c : Ctx) (s : Bytes) : Ctx × Nat :=
  let i := eatWhiteSpace s
  if i == s.length then (c, s.length)
  else
    let r := s.drop i
    if r.head? == some 62 then
      let st := if memKey specialElements c.elemName then State.specialBody else State.text
      let ret : Ctx := { state := st, elemName := c.elemName, elemNames := c.elemNames,
                         scriptType := c.scriptType, linkRel := c.linkRel }
      -- a conditional element name leaves the element context only if every candidate is void
      let allVoid := c.elemNames.all fun n => memKey voidElements n
      let ret := if c.elemName != [] && memKey voidElements c.elemName && allVoid then
          { ret with elemName := [], elemNames := [], scriptType := [], linkRel := [] } else ret
      (ret, i + 1)
    else
      match eatAttrName r with
      | none => (Ctx.errorCtx .badHTML, s.length)
      | some n =>
        if n == 0 then (Ctx.errorCtx .badHTML, s.length)
        else
          let st := if i + n == s.length then State.attrName else State.afterName
          ({ state := st, elemName := c.elemName, elemNames := c.elemNames,
             attrName := goToLower (r.take n), linkRel := c.linkRel }, i + n)

def tAttrName (c : Ctx) (s : Bytes) : Ctx × Nat :=
  match eatAttrName s with
  | none => (Ctx.errorCtx .badHTML, s.length)
  | some i => if i != s.length then ({ c with state := .afterName }, i) else (c, i)

def tAfterName (c : Ctx) (s : Bytes) : Ctx × Nat :=
  let i := eatWhiteSpace s
  if i == s.length then (c, s.length)
  else if (s.drop i).head? != some 61 then ({ c with state := .tag }, i)
  else ({ c with state := .beforeValue }, i + 1)

def tBeforeValue (c : Ctx) (s : Bytes) : Ctx × Nat :=
  let i := eatWhiteSpace s
  if i == s.length then (c, s.length)
  else
    match (s.drop i).head? with
    | some 39 => ({ c with state := .attr, delim := .sq }, i + 1)
    | some 34 => ({ c with state := .attr, delim := .dq }, i + 1)
    | _ => ({ c with state := .attr, delim := .spaceOrTagEnd }, i)

def tHTMLCmt (c : Ctx) (s : Bytes) : Ctx × Nat :=
  match indexSub commentEnd s with
  | some i => ({}, i + 3)
  | none => (c, s.length)

def asciiEqFold (a b : Bytes) : Bool :=
  a.length == b.length && (a.zip b).all fun p => asciiLower p.1 == asciiLower p.2

/-- indexTagEnd: offset of the `</tag` that is followed by a separator, if any -/
def indexTagEndGo (tag : Bytes) : Nat → Nat → Bytes → Option Nat
  | 0, _, _ => none
  | f+1, res, s =>
    if s.isEmpty then none else
    match indexSub specialTagEndPrefix s with
    | none => none
    | some i =>
      let s1 := s.drop (i + specialTagEndPrefix.length)
      if tag.length ≤ s1.length && asciiEqFold tag (s1.take tag.length) then
        let s2 := s1.drop tag.length
        match s2 with
        | x :: _ =>
          if tagEndSeparators.contains x then some (res + i)
          else indexTagEndGo tag f (res + tag.length + i + specialTagEndPrefix.length) s2
        | [] => indexTagEndGo tag f (res + tag.length + i + specialTagEndPrefix.length) s2
      else indexTagEndGo tag f (res + i + specialTagEndPrefix.length) s1

def indexTagEnd (s tag : Bytes) : Option Nat := indexTagEndGo tag (s.length + 1) 0 s

def tSpecialTagEnd (c : Ctx) (s : Bytes) : Ctx × Nat :=
  if memKey specialElements c.elemName then
    match indexTagEnd s c.elemName with
    | some i => ({}, i)
    | none => (c, s.length)
  else (c, s.length)

def tAttr (c : Ctx) (s : Bytes) : Ctx × Nat := (c, s.length)
def tError (c : Ctx) (s : Bytes) : Ctx × Nat := (c, s.length)

def transition (c : Ctx) (s : Bytes) : Ctx × Nat :=
  match c.state with
  | .text => tText c s
  | .specialBody => tSpecialTagEnd c s
  | .tag => tTag c s
  | .attrName => tAttrName c s
  | .afterName => tAfterName c s
  | .beforeValue => tBeforeValue c s
  | .htmlCmt => tHTMLCmt c s
  | .attr => tAttr c s
  | .error => tError c s

end SafeHtml.Model.Tmpl
