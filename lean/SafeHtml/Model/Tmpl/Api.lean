/- Model of template/template.go: the API state machine over name spaces, template objects and
   text/template's common set. `Api.step` is total; Go panics are explicit results. -/
import SafeHtml.Model.Tmpl.Exec
import SafeHtml.Model.Tmpl.Wire
namespace SafeHtml.Model.Tmpl
open SafeHtml

/-- `Template.escapeErr` -/
inductive Status where
  | unset                  -- nil
  | ok                     -- errEscapeOK
  | failed (code : ErrCode)
  deriving DecidableEq, Repr, Inhabited

/-- a safehtml `*Template` object -/
structure TObj where
  ns : Nat
  name : String
  status : Status := .unset
  treeNil : Bool := true          -- the exported `Tree` field is nil
  registered : Bool := false      -- `t.text` is the object registered under `name` in the common set
                                  -- (otherwise a fresh text template with nil Tree)
  deriving Repr, Inhabited

structure NS where
  set : List (String × Nat) := []      -- name ↦ object id
  escaped : Bool := false
  csp : Bool := false
  esc : Esc := {}
  text : TextSet := []
  deriving Inhabited

structure World where
  objs : List (Nat × TObj) := []
  nss : List (Nat × NS) := []
  handles : List (Nat × Nat) := []     -- harness handle ↦ object id
  next : Nat := 0
  fuel : Nat := 100000
  v : Validators

def nlookup {β} (l : List (Nat × β)) (k : Nat) : Option β :=
  (l.find? (fun p => p.1 == k)).map (·.2)

/-- functional update (newest binding first; the order is never observed) -/
def nset {β} (l : List (Nat × β)) (k : Nat) (v : β) : List (Nat × β) :=
  (k, v) :: l.filter (fun p => p.1 != k)

def World.obj (w : World) (h : Nat) : Option (Nat × TObj) := do
  let id ← nlookup w.handles h
  let o ← nlookup w.objs id
  pure (id, o)

def World.ns (w : World) (id : Nat) : NS := (nlookup w.nss id).getD {}

def World.setObj (w : World) (id : Nat) (o : TObj) : World := { w with objs := nset w.objs id o }
def World.setNs (w : World) (id : Nat) (n : NS) : World := { w with nss := nset w.nss id n }
def World.bind (w : World) (h id : Nat) : World := { w with handles := nset w.handles h id }

/-- package-level `New(name)` -/
def World.newSet (w : World) (name : String) : World × Nat :=
  let nsId := w.next
  let oid := w.next + 1
  let w := { w with next := w.next + 2 }
  let w := w.setNs nsId { set := [(name, oid)] }
  (w.setObj oid { ns := nsId, name := name }, oid)

/-- `t.new(name)`: a fresh unparsed object in t's name space; an existing object of that name is
    overwritten with an empty template of a brand-new name space (`*existing = *emptyTmpl`). -/
def World.assocNew (w : World) (nsId : Nat) (name : String) : World × Nat :=
  let ns := w.ns nsId
  let w := match alookup ns.set name with
    | some ex =>
      -- emptyTmpl := New(existing.Name()); its own object stays hidden, `existing` becomes a copy of it
      let (w1, hidden) := w.newSet name
      match nlookup w1.objs hidden with
      | some ho => w1.setObj ex ho
      | none => w1
    | none => w
  let oid := w.next
  let w := { w with next := w.next + 1 }
  let ns := w.ns nsId
  let w := w.setNs nsId { ns with set := aset ns.set name oid }
  (w.setObj oid { ns := nsId, name := name }, oid)

inductive Res where
  | ok (out : Bytes)
  | err (cls : String) (partialOut : Bytes)
  | panic (site : String)
  | fuel
  | unsupported
  deriving Repr

def Res.str : Res → String
  | .ok b => "ok " ++ hexOf b
  | .err c b => "err:" ++ c ++ " " ++ hexOf b
  | .panic _ => "panic"
  | .fuel => "model-out-of-fuel"
  | .unsupported => "unsupported"

/-- failure branch of escapeTemplate: `t.escapeErr = err; t.Tree = nil` for `t = set[name]`; the escaper
    keeps whatever the failed analysis left in it (the text/template tree stays in place) -/
def markFailed (w : World) (nsId : Nat) (name : String) (e : Esc) (code : ErrCode) : World :=
  let ns := w.ns nsId
  let w := w.setNs nsId { ns with esc := e }
  match alookup ns.set name with
  | some oid =>
    match nlookup w.objs oid with
    | some o => w.setObj oid { o with status := .failed code, treeNil := true }
    | none => w
  | none => w

/-- success branch of escapeTemplate: the committed text set and escaper are installed;
    `t.escapeErr = errEscapeOK; t.Tree = t.text.Tree` for `t = set[name]` -/
def markOk (w : World) (nsId : Nat) (name : String) (text' : TextSet) (e' : Esc) : World :=
  let ns := w.ns nsId
  let w := w.setNs nsId { ns with esc := e', text := text' }
  match alookup ns.set name with
  | some oid =>
    match nlookup w.objs oid with
    | some o =>
      let tn := if o.registered then (match text'.lookup name with | some (some _) => false | _ => true) else true
      w.setObj oid { o with status := .ok, treeNil := tn }
    | none => w
  | none => w

/-- the error escapeTemplate reports for a final context -/
def finalError (c : Ctx) : Option ErrCode :=
  if c.err.isSome then c.err else if c.state != .text then some .endContext else none

/-- escapeTemplate(tmpl, node, name): `inl res` = outcome to report (panic/fuel), `inr (w, err)` -/
def escapeTemplateTop (w : World) (nsId : Nat) (name : String) : Res ⊕ (World × Option ErrCode) :=
  let ns := w.ns nsId
  let env : Env := { text := ns.text, nsHas := fun n => (alookup ns.set n).isSome, csp := ns.csp, v := w.v }
  match escapeTree env w.fuel ns.esc {} name with
  | .panic m => .inl (.panic m)
  | .fuel => .inl .fuel
  | .ok (e, c, _) =>
    match finalError c with
    | some code => .inr (markFailed w nsId name e code, some code)
    | none =>
      match commit ns.text e with
      | .panic m => .inl (.panic m)
      | .fuel => .inl .fuel
      | .ok (text', e') => .inr (markOk w nsId name text' e', none)

/-- `t.text.Execute(wr, data)` -/
def textExecute (w : World) (o : TObj) (data : Value) : Res :=
  let ns := w.ns o.ns
  let tree := if o.registered then (match ns.text.lookup o.name with | some t => t | none => none) else none
  match tree with
  | none => .err "exec" []                  -- "incomplete or empty template" (ExecError)
  | some tr =>
    let r := walkList false ns.text 0 w.fuel data data [] tr.root
    match r.err with
    | none => .ok r.out
    | some .nilTree => .panic "nil pointer dereference: execution of a called template whose Tree is nil"
    | some .exec => .err "exec" r.out
    | some .depth => .err "exec-depth" []
    | some .unsupported => .unsupported
    | some .fuel => .fuel

def analysisCls (c : ErrCode) : String := "analysis:" ++ c.str

/-- `t.Execute(wr, data)` -/
def apiExecute (w : World) (h : Nat) (data : Value) : World × Res :=
  match w.obj h with
  | none => (w, .unsupported)
  | some (oid, o) =>
    let ns := w.ns o.ns
    let w := w.setNs o.ns { ns with escaped := true }
    match o.status with
    | .failed code => (w, .err (analysisCls code) [])
    | .ok => (w, textExecute w o data)
    | .unset =>
      if o.treeNil then (w, .err "incomplete" [])
      else
        match escapeTemplateTop w o.ns o.name with
        | .inl r => (w, r)
        | .inr (w', some code) => (w', .err (analysisCls code) [])
        | .inr (w', none) =>
          -- the object executed is the receiver; its text object is the registered one
          match nlookup w'.objs oid with
          | some o' => (w', textExecute w' o' data)
          | none => (w', .unsupported)

/-- `t.ExecuteTemplate(wr, name, data)` -/
def apiExecuteTemplate (w : World) (h : Nat) (name : String) (data : Value) : World × Res :=
  match w.obj h with
  | none => (w, .unsupported)
  | some (_, o) =>
    let ns := w.ns o.ns
    let ns := { ns with escaped := true }
    let w := w.setNs o.ns ns
    match alookup ns.set name with
    | none => (w, .err "undefined" [])
    | some tid =>
      match nlookup w.objs tid with
      | none => (w, .unsupported)
      | some t =>
        match t.status with
        | .failed code => (w, .err (analysisCls code) [])
        | st =>
          let textTreeNil := if t.registered then
              (match ns.text.lookup name with | some (some _) => false | _ => true) else true
          if textTreeNil then (w, .err "incomplete" [])
          else if (ns.text.lookup name).isNone then (w, .panic "template escaping out of sync")
          else if st == .unset then
            match escapeTemplateTop w o.ns name with
            | .inl r => (w, r)
            | .inr (w', some code) => (w', .err (analysisCls code) [])
            | .inr (w', none) =>
              match nlookup w'.objs tid with
              | some t' => (w', textExecute w' t' data)
              | none => (w', .unsupported)
          else (w, textExecute w t data)

/-- text/template's AddParseTree/associate for one parsed tree, called on the text object `self`
    (name `selfName`, `selfReg` = it is the registered object). Returns the new common set and
    whether `self` is now registered. -/
def addParseTree (text : TextSet) (selfName : String) (selfReg : Bool) (tr : Tree) : TextSet × Bool :=
  let keepOld := match text.lookup tr.name with
    | some (some _) => tr.root.isEmpty
    | _ => false
  if keepOld then (text, selfReg)
  else (text.set tr.name (some tr), if tr.name == selfName then true else selfReg)

/-- `t.Parse(text)` where the harness supplies the trees the real parser produced for the text -/
def apiParse (w : World) (h : Nat) (defs : List Tree) : World × String :=
  match w.obj h with
  | none => (w, "unsupported")
  | some (oid, o) =>
    let ns := w.ns o.ns
    if ns.escaped then (w, "err:parse-gate")
    else
      let (text, reg) := defs.foldl (fun (acc : TextSet × Bool) tr => addParseTree acc.1 o.name acc.2 tr)
        (ns.text, o.registered)
      -- the receiver's own text object may have just been registered (it can be shared with the hidden
      -- object created by `*existing = *emptyTmpl`); its exported Tree field is only touched below
      let w := w.setObj oid { o with registered := reg }
      let w := w.setNs o.ns { ns with text := text }
      -- for every template of the common set: bind the object of that name to the registered text object
      let w := text.foldl (fun (w : World) (p : String × Option Tree) =>
        let ns := w.ns o.ns
        let (w, tid) := match alookup ns.set p.1 with
          | some tid => (w, tid)
          | none => w.assocNew o.ns p.1
        match nlookup w.objs tid with
        | some t => w.setObj tid { t with registered := true, treeNil := p.2.isNone }
        | none => w) w
      (w, "ok")

/-- `t.Clone()` bound to handle h' -/
def apiClone (w : World) (h h' : Nat) : World × String :=
  match w.obj h with
  | none => (w, "unsupported")
  | some (_, o) =>
    if o.status != .unset then (w, "err:clone")
    else
      let ns := w.ns o.ns
      -- every template of the text set needs an unexecuted source object
      let okAll := ns.text.all fun p =>
        match alookup ns.set p.1 with
        | some sid => (match nlookup w.objs sid with | some s => s.status == .unset | none => false)
        | none => false
      if !okAll then (w, "err:clone")
      else
        let nsId := w.next
        let rootId := w.next + 1
        let w := { w with next := w.next + 2 }
        -- text/template Clone: the clone of `t.text` itself takes the slot of its name in the new common
        -- set, even when `t.text` was not the registered object (then its nil Tree shadows the old body)
        let ctext : TextSet := if o.registered then ns.text
          else ns.text.map (fun p => if p.1 == o.name then (p.1, none) else p)
        let rootReg := (ctext.lookup o.name).isSome
        let root : TObj := { ns := nsId, name := o.name, registered := rootReg,
                             treeNil := !(match ctext.lookup o.name with | some (some _) => true | _ => false) }
        let w := w.setObj rootId root
        let w := w.setNs nsId { set := [(o.name, rootId)], text := ctext }
        let w := ctext.foldl (fun (w : World) (p : String × Option Tree) =>
          let oid := w.next
          let w := { w with next := w.next + 1 }
          let n := w.ns nsId
          let w := w.setNs nsId { n with set := aset n.set p.1 oid }
          w.setObj oid { ns := nsId, name := p.1, registered := true, treeNil := p.2.isNone }) w
        let n := w.ns nsId
        match alookup n.set o.name with
        | some rid => (w.bind h' rid, "ok")
        | none => (w, "unsupported")

def apiLookup (w : World) (h : Nat) (name : String) (h' : Nat) : World × String :=
  match w.obj h with
  | none => (w, "unsupported")
  | some (_, o) =>
    match alookup (w.ns o.ns).set name with
    | none => (w, "nil")
    | some tid =>
      -- the harness reports the smallest handle already bound to this object
      match ((w.handles.filter (fun p => p.2 == tid)).map (·.1)).min? with
      | some k => (w.bind h' tid, "same:" ++ toString k)
      | none => (w.bind h' tid, "new")

def insertSorted (x : String) : List String → List String
  | [] => [x]
  | y :: t => if x ≤ y then x :: y :: t else y :: insertSorted x t

def apiTemplates (w : World) (h : Nat) : String :=
  match w.obj h with
  | none => "unsupported"
  | some (_, o) =>
    let names := ((w.ns o.ns).set.map (·.1)).foldl (fun acc n => insertSorted n acc) []
    "ok " ++ hexOf (B (String.intercalate "," names))

end SafeHtml.Model.Tmpl
