/- Model of contextAfterText, escaper.escapeText and isJsTemplateBalanced (template/escape.go). -/
import SafeHtml.Model.Tmpl.Transition
namespace SafeHtml.Model.Tmpl
open SafeHtml SafeHtml.Generated.Policy

/-- a Go panic at a named program point -/
inductive Outcome (α : Type) where
  | ok (a : α)
  | panic (where_ : String)
  deriving Repr

def lookupSC (tbl : List (Nat × List Nat × SC)) (name : Bytes) : Option SC :=
  match tbl.find? (fun r => r.2.1 == name) with
  | some r => some r.2.2
  | none => none

/-- unicode.IsSpace as used by strings.Fields / TrimSpace -/
def isUnicodeSpace (r : Nat) : Bool :=
  r == 9 || r == 10 || r == 11 || r == 12 || r == 13 || r == 32 || r == 0x85 || r == 0xA0 ||
  r == 0x1680 || (0x2000 ≤ r && r ≤ 0x200A) || r == 0x2028 || r == 0x2029 || r == 0x202F ||
  r == 0x205F || r == 0x3000

/-- strings.Fields -/
def fieldsGo : List Sym → Bytes → List Bytes → List Bytes
  | [], cur, acc => (if cur.isEmpty then acc else cur :: acc).reverse
  | x :: t, cur, acc =>
    if isUnicodeSpace x.rune then fieldsGo t [] (if cur.isEmpty then acc else cur :: acc)
    else fieldsGo t (cur ++ x.bytes) acc

def fields (s : Bytes) : List Bytes := fieldsGo (Utf8.decodeSyms s) [] []

def joinSp : List Bytes → Bytes
  | [] => []
  | [a] => a
  | a :: t => a ++ [32] ++ joinSp t

/-- `" " + strings.Join(strings.Fields(strings.TrimSpace(strings.ToLower(v))), " ") + " "` -/
def normLinkRel (v : Bytes) : Bytes := [32] ++ joinSp (fields (goToLower v)) ++ [32]

def delimEnds : Delim → List Nat
  | .dq => delimEnds_DoubleQuote
  | .sq => delimEnds_SingleQuote
  | .spaceOrTagEnd => delimEnds_SpaceOrTagEnd
  | .none => []

def scriptName : Bytes := [115, 99, 114, 105, 112, 116]
def linkName : Bytes := [108, 105, 110, 107]
def typeName : Bytes := [116, 121, 112, 101]
def relName : Bytes := [114, 101, 108]

/-- the loop that feeds the (unescaped) attribute text to the transition function; with
    `delim ≠ none` the state is always `attr`, whose transition consumes everything (see
    `Proofs`): the unescaped text itself is irrelevant, only its non-emptiness. -/
def feedLoop : Nat → Ctx → Bytes → Ctx
  | 0, c, _ => c
  | f+1, c, u =>
    if u.isEmpty then c else
    let (c1, i1) := transition c u
    feedLoop f c1 (u.drop i1)

def contextAfterText (c : Ctx) (s : Bytes) : Ctx × Nat :=
  if c.delim == .none then
    let (c1, i) := tSpecialTagEnd c s
    if i == 0 then (c1, 0) else transition c (s.take i)
  else
    let i := (indexAny (delimEnds c.delim) s).getD s.length
    if c.delim == .spaceOrTagEnd && (indexAny unquotedBad (s.take i)).isSome then
      (Ctx.errorCtx .badHTML, s.length)
    else if i == s.length then
      let c := { c with attrValue := c.attrValue ++ s }
      (feedLoop (s.length + 1) c s, s.length)
    else
      let ret : Ctx := { state := .tag, elemName := c.elemName, elemNames := c.elemNames,
                         scriptType := c.scriptType, linkRel := c.linkRel }
      let ret := if c.state == .attr && c.elemName == scriptName && c.attrName == typeName then
          { ret with scriptType := goToLower (s.take i) } else ret
      let ret := if c.state == .attr && c.elemName == linkName && c.attrName == relName && c.linkRel == [] then
          { ret with linkRel := normLinkRel (s.take i) } else ret
      (ret, if c.delim != .spaceOrTagEnd then i + 1 else i)

/-! ### ES6 template balance check -/

def jsSep : Bytes := [96]
def jsExprStart : Bytes := [36, 123]
def jsExprEnd : Bytes := [125]

mutual
/-- consumeJsTemplate: `none` = error, `some rest` = buffer after the call -/
def consumeJsTemplate : Nat → Bytes → Option Bytes
  | 0, _ => none
  | f+1, s =>
    match indexSub jsSep s with
    | none => none
    | some templateEnd =>
      match indexSub jsExprStart s with
      | some exprStart =>
        if exprStart < templateEnd then
          match consumeJsTemplateExpr f s with
          | none => none
          | some s' => consumeJsTemplate f s'
        else some (s.drop (templateEnd + 1))
      | none => some (s.drop (templateEnd + 1))
def consumeJsTemplateExpr : Nat → Bytes → Option Bytes
  | 0, _ => none
  | f+1, s =>
    match indexSub jsExprEnd s with
    | none => none
    | some exprEnd =>
      match indexSub jsSep s with
      | some nested =>
        if nested < exprEnd then
          match consumeJsTemplate f (s.drop (nested + 1)) with
          | none => none
          | some s' => consumeJsTemplateExpr f s'
        else some (s.drop (exprEnd + 1))
      | none => some (s.drop (exprEnd + 1))
end

def isJsTemplateBalancedGo : Nat → Bytes → Bool
  | 0, _ => false
  | f+1, s =>
    match indexSub jsSep s with
    | none => true
    | some idx =>
      match consumeJsTemplate (2 * s.length + 2) (s.drop (idx + 1)) with
      | none => false
      | some s' => isJsTemplateBalancedGo f s'

def isJsTemplateBalanced (s : Bytes) : Bool := isJsTemplateBalancedGo (s.length + 2) s

/-! ### escapeText -/

def upperAscii (c : Nat) : Nat := if isLowerAlpha c then c - 32 else c

def hasDoctypePrefix (s : Bytes) : Bool :=
  doctypeBytes.length ≤ s.length && (s.take doctypeBytes.length).map upperAscii == doctypeBytes

def jsUri : Bytes := [106, 97, 118, 97, 115, 99, 114, 105, 112, 116, 58]
def onPrefix : Bytes := [111, 110]

/-- position of the last '<' in s[i:end), else `end` -/
def lastLt (s : Bytes) (i e : Nat) : Nat :=
  let seg := (s.take e).drop i
  match (List.range seg.length).reverse.find? (fun k => seg.getD k 0 == 60) with
  | some k => i + k
  | none => e

/-- the `&lt;` rewriting loop over s[i:end): returns new (buffer, written) -/
def ltLoop (s : Bytes) : Nat → Nat → Nat → Bytes → Nat → Bytes × Nat
  | 0, _, _, b, w => (b, w)
  | f+1, j, e, b, w =>
    if j ≥ e then (b, w)
    else if s.getD j 0 == 60 && !hasDoctypePrefix (s.drop j) then
      ltLoop s f (j + 1) e (b ++ (s.take j).drop w ++ [38, 108, 116, 59]) (j + 1)
    else ltLoop s f (j + 1) e b w

structure ETState where
  c : Ctx
  i : Nat
  written : Nat
  b : Bytes

inductive ETResult where
  | done (c : Ctx) (newText : Option Bytes)
  | panic

def escapeTextLoop (csp : Bool) (s : Bytes) : Nat → ETState → Option ETState ⊕ ETResult
  | 0, _ => .inr .panic            -- fuel is 2·|s|+2; exhaustion would be the Go infinite loop
  | f+1, st =>
    if st.i == s.length then .inl (some st)
    else if csp && onPrefix.isPrefixOf st.c.attrName then .inr (.done (Ctx.errorCtx .cspCompatibility) none)
    else
      let c := st.c
      let (c1, nread) := contextAfterText c (s.drop st.i)
      let i1 := st.i + nread
      let rcdata := lookupSC elementContent c.elemName == some SC.RCDATA
      let (b, written) :=
        if c.state == .text || rcdata then
          let e := if c1.state != c.state then lastLt s st.i i1 else i1
          ltLoop s (s.length + 1) st.i e st.b st.written
        else if isComment c.state && c.delim == .none then (st.b, i1)
        else (st.b, st.written)
      if c.state == .specialBody && c.elemName == scriptName && !isJsTemplateBalanced s then
        .inr (.done (Ctx.errorCtx .unbalancedJsTemplate) none)
      else
        let (b, written) :=
          if c.state != c1.state && isComment c1.state && c1.delim == .none then
            let cs := if c1.state == .htmlCmt then i1 - 4 else i1 - 2
            (b ++ (s.take cs).drop written, i1)
          else (b, written)
        if st.i == i1 && c.state == c1.state then .inr .panic
        else escapeTextLoop csp s f { c := c1, i := i1, written := written, b := b }

def escapeText (csp : Bool) (c : Ctx) (s : Bytes) : ETResult :=
  if csp && (indexSub jsUri s).isSome then .done (Ctx.errorCtx .cspCompatibility) none
  else
    match escapeTextLoop csp s (2 * s.length + 2) { c := c, i := 0, written := 0, b := [] } with
    | .inr r => r
    | .inl none => .panic
    | .inl (some st) =>
      if st.written != 0 && st.c.state != .error then
        let b := if !isComment st.c.state || st.c.delim != .none then st.b ++ s.drop st.written else st.b
        .done st.c (some b)
      else .done st.c none

end SafeHtml.Model.Tmpl
