/- Model of template/sanitize.go: which sanitizer chain an action gets in a context. -/
import SafeHtml.Model.Tmpl.EscapeText
import SafeHtml.Generated.Regexes
namespace SafeHtml.Model.Tmpl
open SafeHtml SafeHtml.Generated.Policy SafeHtml.Generated.Regexes

def fnHTML := "_sanitizeHTML"
def fnHTMLComment := "_sanitizeHTMLComment"
def fnNormalizeURL := "_normalizeURL"
def fnQueryEscapeURL := "_queryEscapeURL"
def fnValidateTRUSubst := "_validateTrustedResourceURLSubstitution"
def fnEvalArgs := "_evalArgs"

def hrefName : Bytes := [104, 114, 101, 102]

/-- sanitizationContextForAttrVal; `none` = error -/
def sanitizationContextForAttrVal (element attr linkRel : Bytes) : Option SC :=
  if element == linkName && attr == hrefName &&
      (!(fields linkRel).isEmpty && (fields linkRel).all (fun v => memKey urlLinkRelVals v)) then some .TrustedResourceURLOrURL
  else if Rx.matchString template_dataAttributeNamePattern attr then some .None
  else
    match elementSpecificAttr.find? (fun r => r.2.2.1 == attr && r.2.2.2.1 == element) with
    | some r => some r.2.2.2.2
    | none =>
      match lookupSC globalAttr attr with
      | some sc =>
        if (lookupSC elementContent element).isSome || memKey allowedVoidElements element then some sc
        else none
      | none => none

def sanitizationContextForElementContent (element : Bytes) : Option SC :=
  lookupSC elementContent element

def validateDoesNotEndWithCharRefPrefix (p : Bytes) : Bool :=
  !Rx.matchString template_endsWithCharRefPrefixPattern p

def appendIfNotEmpty (l : List String) (s : String) : List String := if s == "" then l else l ++ [s]

/-- all (elem, attr) pairs must give the same context; error otherwise -/
def allSame : List (Option SC) → Option SC
  | [] => none
  | none :: _ => none
  | some sc :: rest => if rest.all (· == some sc) then some sc else none

/-- URL-prefix validators are passed in (they live in template/url.go, modelled in TmplUrl) -/
structure Validators where
  url : Bytes → Bool
  tru : Bytes → Bool
  /-- does the static prefix put the action into the query or fragment part (`#`/`?`, raw or as a character reference) -/
  inQuery : Bytes → Bool

def sanitizersForAttributeValue (v : Validators) (c : Ctx) : Option (List String) :=
  let elems := if c.elemNames.isEmpty then [c.elemName] else c.elemNames
  let attrs := if c.attrNames.isEmpty then [c.attrName] else c.attrNames
  let scs := elems.flatMap fun e => attrs.map fun a => sanitizationContextForAttrVal e a c.linkRel
  match allSame scs with
  | none => none
  | some sc0 =>
    if sc0.isEnum && c.attrValue != [] then none
    else if sc0 == .Style && c.attrValue != [] && !validateDoesNotEndWithCharRefPrefix c.attrValue then none
    else
      let sanitizer := sc0.sanitizerName
      if !sc0.isURLorTRU then
        -- context None: stringify first, so that even a safehtml.HTML value is escaped inside the attribute
        some (appendIfNotEmpty [fnHTML] (if sanitizer == "" then fnEvalArgs else sanitizer)).reverse
      else if c.ambiguous then none
      else if c.attrValue == [] then
        some (appendIfNotEmpty (appendIfNotEmpty [fnHTML] fnNormalizeURL) sanitizer).reverse
      else
        let ok := match urlPrefixValidators.find? (fun r => r.1 == sc0) with
          | some (_, "validateURLPrefix") => some (v.url c.attrValue)
          | some (_, "validateTrustedResourceURLPrefix") => some (v.tru c.attrValue)
          | _ => none
        match ok with
        | some true =>
          if sc0 == .TrustedResourceURL then some [fnHTML, fnQueryEscapeURL, fnValidateTRUSubst].reverse
          else if v.inQuery c.attrValue then some [fnHTML, fnQueryEscapeURL].reverse
          else some [fnHTML, fnNormalizeURL].reverse
        | _ => none

def sanitizerForElementContent (c : Ctx) : Option String :=
  let elems := if c.elemNames.isEmpty then [c.elemName] else c.elemNames
  let scs := elems.map fun e => if e == [] then some SC.HTML else sanitizationContextForElementContent e
  match allSame scs with
  | none => none
  | some sc0 => some sc0.sanitizerName

/-- sanitizerForContext; `none` = error (always reported as ErrEscapeAction by the caller) -/
def sanitizerForContext (v : Validators) (c : Ctx) : Option (List String) :=
  if c.state == .tag || c.state == .attrName || c.state == .afterName then none
  else if c.state == .htmlCmt then some [fnHTMLComment]
  else if c.elemNames.isEmpty && c.elemName == [] && c.state == .text then some [fnHTML]
  else if c.attrName != [] || !c.attrNames.isEmpty then
    if c.delim != .dq && c.delim != .sq then none
    else sanitizersForAttributeValue v c
  else
    match sanitizerForElementContent c with
    | none => none
    | some s => some (appendIfNotEmpty [] s)

end SafeHtml.Model.Tmpl
