/- Model of text/template execution for the node kinds and pipelines the harness generates.
   Anything outside the fragment is reported as `unsupported` (never defaulted). -/
import SafeHtml.Model.Tmpl.Escaper
import SafeHtml.Model.Tmpl.Value
namespace SafeHtml.Model.Tmpl
open SafeHtml

inductive ExecErr where
  | exec          -- text/template returned an error (sanitizer error, bad field access, …)
  | depth         -- "exceeded maximum template depth" (the model caps the call depth at 2000; the real limit is 100000)
  | nilTree       -- a called template has a nil Tree: text/template dereferences it (run-time panic)
  | unsupported
  | fuel
  deriving DecidableEq, Repr

/-- text/template IsTrue after the "dig down one level" unwrapping -/
def Value.isTrue : Value → Bool
  | .str b => !b.isEmpty
  | .safe _ _ => true            -- struct
  | .int i => i != 0
  | .bool b => b
  | .nil => false
  | .noValue => false
  | .list vs => match vs with | .nil => false | _ => true
  | .map kvs => match kvs with | .nil => false | _ => true
  | .ptr _ => true

def fieldChain : Value → List String → Except ExecErr Value
  | v, [] => .ok v
  | v, f :: rest =>
    match v.indirect with
    | .map kvs =>
      match kvs.get f with
      | some x => fieldChain x rest
      | none => .ok .noValue   -- missing key ⇒ invalid value
    | .noValue => .ok .noValue   -- field of an invalid value: invalid again, no error
    | .nil => .error .exec
    | _ => .error .exec

/-- evaluate one command given the value piped in (`none` for the first command) -/
def evalCmd (dot root : Value) (cmd : Cmd) (piped : Option Value) : Except ExecErr Value :=
  match cmd.args with
  | [] => .error .unsupported
  | .ident f :: rest =>
    -- reserved functions take the pipeline value as their only argument
    match rest, piped with
    | [], some v =>
      match runFn f v with
      | .ok r => .ok r
      | .error .sanitizer => .error .exec
      | .error .unsupported => .error .unsupported
    | [a], none =>
      -- `_evalArgs x | html` form produced by ensurePipelineContains
      let av : Except ExecErr Value := match a with
        | .dot => .ok dot
        | .field ns => fieldChain dot ns
        | .str b => .ok (.str b)
        | _ => .error .unsupported
      match av with
      | .error e => .error e
      | .ok v =>
        match runFn f v with
        | .ok r => .ok r
        | .error .sanitizer => .error .exec
        | .error .unsupported => .error .unsupported
    | _, _ => .error .unsupported
  | [a] =>
    if piped.isSome then .error .exec   -- "can't give argument to non-function"
    else match a with
      | .dot => .ok dot
      | .field ns => fieldChain dot ns
      | .str b => .ok (.str b)
      | .bool b => .ok (.bool b)
      | .var ["$"] => .ok root
      | .var ("$" :: ns) => fieldChain root ns
      | .nil => .error .exec
      | .num t => match t.toInt? with | some i => .ok (.int i) | none => .error .unsupported
      | _ => .error .unsupported
  | _ => .error .unsupported

def evalPipe (dot root : Value) (p : Pipe) : Except ExecErr Value :=
  if !p.decl.isEmpty then .error .unsupported else
  let rec go : List Cmd → Option Value → Except ExecErr Value
    | [], some v => .ok v
    | [], none => .error .unsupported
    | c :: cs, piped => do
      let v ← evalCmd dot root c piped
      go cs (some v)
  go p.cmds none

/-- result of a (possibly failing) execution: bytes written so far and the error, if any -/
structure ExecRes where
  out : Bytes
  err : Option ExecErr

mutual
def walkNode (plain : Bool) (text : TextSet) (depth : Nat) : Nat → Value → Value → Bytes → Node → ExecRes
  | 0, _, _, out, _ => ⟨out, some .fuel⟩
  | f+1, dot, root, out, n =>
    match n with
    | .text _ b => ⟨out ++ b, none⟩
    | .action _ p =>
      match evalPipe dot root p with
      | .error e => ⟨out, some e⟩
      | .ok v =>
        match v with
        | .str b => ⟨out ++ b, none⟩
        | .nil => if plain then ⟨out ++ [60, 110, 111, 32, 118, 97, 108, 117, 101, 62], none⟩ else ⟨out, some .unsupported⟩
        | .noValue => if plain then ⟨out ++ [60, 110, 111, 32, 118, 97, 108, 117, 101, 62], none⟩ else ⟨out, some .unsupported⟩
        | v =>
          -- plain text/template (no sanitizers): fmt.Fprint of the value; after analysis every action ends in a string
          if plain then (match v.sprint with | some b => ⟨out ++ b, none⟩ | none => ⟨out, some .unsupported⟩)
          else ⟨out, some .unsupported⟩
    | .ifN _ p t e =>
      match evalPipe dot root p with
      | .error er => ⟨out, some er⟩
      | .ok v => if v.isTrue then walkList plain text depth f dot root out t else walkList plain text depth f dot root out e
    | .withN _ p t e =>
      match evalPipe dot root p with
      | .error er => ⟨out, some er⟩
      | .ok v => if v.isTrue then walkList plain text depth f v root out t else walkList plain text depth f dot root out e
    | .rangeN _ p t e =>
      match evalPipe dot root p with
      | .error er => ⟨out, some er⟩
      | .ok v =>
        match v.indirect with
        | .list vs => match vs with
          | .nil => walkList plain text depth f dot root out e
          | _ => walkRange plain text depth f vs.toList root out t
        | .map kvs => match kvs with
          | .nil => walkList plain text depth f dot root out e
          | _ => walkRange plain text depth f (kvs.toList.map (·.2)) root out t
        | .nil => walkList plain text depth f dot root out e
        | .noValue => walkList plain text depth f dot root out e
        | _ => ⟨out, some .unsupported⟩
    | .tmpl _ name p =>
      match text.lookup name with
      | some (some tr) =>
        let dv : Except ExecErr Value := match p with
          | none => .ok .noValue
          | some pp => evalPipe dot root pp
        match dv with
        | .error er => ⟨out, some er⟩
        | .ok d => if depth ≥ 2000 then ⟨out, some .depth⟩ else walkList plain text (depth + 1) f d d out tr.root
      | some none => ⟨out, some .nilTree⟩
      | none => ⟨out, some .exec⟩
    | _ => ⟨out, some .unsupported⟩

def walkList (plain : Bool) (text : TextSet) (depth : Nat) : Nat → Value → Value → Bytes → NodeList → ExecRes
  | 0, _, _, out, _ => ⟨out, some .fuel⟩
  | f+1, dot, root, out, l =>
    match l with
    | .nil => ⟨out, none⟩
    | .cons n ns =>
      let r := walkNode plain text depth f dot root out n
      match r.err with
      | some _ => r
      | none => walkList plain text depth f dot root r.out ns

def walkRange (plain : Bool) (text : TextSet) (depth : Nat) : Nat → List Value → Value → Bytes → NodeList → ExecRes
  | 0, _, _, out, _ => ⟨out, some .fuel⟩
  | f+1, vs, root, out, body =>
    match vs with
    | [] => ⟨out, none⟩
    | v :: rest =>
      let r := walkList plain text depth f v root out body
      match r.err with
      | some _ => r
      | none => walkRange plain text depth f rest root r.out body
end

/-! ### rendering the author's template with inert placeholder values (plain text/template, no sanitizers) -/

mutual
/-- every string / safe-typed leaf becomes "x" (or "" if it was empty): same control path, inert content -/
def Value.inert : Value → Value
  | .str b => .str (if b.isEmpty then [] else [120])
  | .safe _ b => .str (if b.isEmpty then [] else [120])
  | .ptr v => .ptr v.inert
  | .list vs => .list vs.inert
  | .map kvs => .map kvs.inert
  | v => v
def ValueList.inert : ValueList → ValueList
  | .nil => .nil
  | .cons v vs => .cons v.inert vs.inert
def KVList.inert : KVList → KVList
  | .nil => .nil
  | .cons k v r => .cons k v.inert r.inert
end

mutual
/-- like `inert`, but safe-typed leaves keep their type with benign contents -/
def Value.inertTyped : Value → Value
  | .str b => .str (if b.isEmpty then [] else [120])
  | .safe t _ => .safe t (match t with
      | .Style => [120, 58, 121, 59] | .StyleSheet => [120, 123, 125]
      | .TrustedResourceURL => [104,116,116,112,115,58,47,47,120,46,101,120,97,109,112,108,101,47,120]
      | _ => [120])
  | .ptr v => .ptr v.inertTyped
  | .list vs => .list vs.inertTyped
  | .map kvs => .map kvs.inertTyped
  | v => v
def ValueList.inertTyped : ValueList → ValueList
  | .nil => .nil
  | .cons v vs => .cons v.inertTyped vs.inertTyped
def KVList.inertTyped : KVList → KVList
  | .nil => .nil
  | .cons k v r => .cons k v.inertTyped r.inertTyped
end

/-- text/template's own view of a set of definitions (AddParseTree rule: an empty redefinition keeps the old body) -/
def plainTextSet (defs : List Tree) : TextSet :=
  defs.foldl (fun ts tr =>
    match ts.lookup tr.name with
    | some (some _) => if tr.root.isEmpty then ts else ts.set tr.name (some tr)
    | _ => ts.set tr.name (some tr)) []

/-- execute template `name` of the definitions with plain text/template semantics -/
def plainRender (defs : List Tree) (name : String) (data : Value) (fuel : Nat) : ExecRes :=
  let ts := plainTextSet defs
  match ts.lookup name with
  | some (some tr) => walkList true ts 0 fuel data data [] tr.root
  | _ => ⟨[], some .exec⟩

end SafeHtml.Model.Tmpl
