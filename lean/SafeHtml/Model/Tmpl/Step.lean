/- The API state machine as one total step function over typed operations. -/
import SafeHtml.Model.Tmpl.Api
namespace SafeHtml.Model.Tmpl
open SafeHtml

inductive Op where
  | new (h : Nat) (name : String)
  | assocNew (h : Nat) (name : String) (h' : Nat)
  | parse (h : Nat) (defs : List Tree)
  | clone (h h' : Nat)
  | lookup (h : Nat) (name : String) (h' : Nat)
  | templates (h : Nat)
  | csp (h : Nat)
  | exec (h : Nat) (data : Value)
  | execT (h : Nat) (name : String) (data : Value)
  | execHTML (h : Nat) (data : Value)
  | execTHTML (h : Nat) (name : String) (data : Value)

/-- what an operation returns -/
inductive Ret where
  | done (s : String)          -- ok / nil / same:k / new / err:parse-gate / err:clone / list of names
  | exec (r : Res)             -- Execute / ExecuteTemplate: bytes written and error class
  | html (r : Res)             -- ExecuteToHTML / ExecuteTemplateToHTML: the zero HTML on error
  | unbound                    -- the harness used a handle that denotes no template (its own bug)

/-- ExecuteToHTML returns `safehtml.HTML{}` together with any error -/
def zeroOnError : Res → Res
  | .err c _ => .err c []
  | r => r

def Ret.str : Ret → String
  | .done s => s
  | .exec r => r.str
  | .html r => r.str
  | .unbound => "unsupported"

def Ret.site : Ret → String
  | .exec (.panic s) => s
  | .html (.panic s) => s
  | _ => ""

def Api.step (w : World) : Op → World × Ret
  | .new h name =>
    let (w, oid) := w.newSet name
    (w.bind h oid, .done "ok")
  | .assocNew h name h' =>
    match w.obj h with
    | some (_, o) =>
      let (w, oid) := w.assocNew o.ns name
      (w.bind h' oid, .done "ok")
    | none => (w, .unbound)
  | .parse h defs => let (w, r) := apiParse w h defs; (w, .done r)
  | .clone h h' => let (w, r) := apiClone w h h'; (w, .done r)
  | .lookup h name h' => let (w, r) := apiLookup w h name h'; (w, .done r)
  | .templates h => (w, .done (apiTemplates w h))
  | .csp h =>
    match w.obj h with
    | some (_, o) => let ns := w.ns o.ns; (w.setNs o.ns { ns with csp := true }, .done "ok")
    | none => (w, .unbound)
  | .exec h d => let (w, r) := apiExecute w h d; (w, .exec r)
  | .execT h n d => let (w, r) := apiExecuteTemplate w h n d; (w, .exec r)
  | .execHTML h d => let (w, r) := apiExecute w h d; (w, .html (zeroOnError r))
  | .execTHTML h n d => let (w, r) := apiExecuteTemplate w h n d; (w, .html (zeroOnError r))

def Api.run (w : World) : List Op → World
  | [] => w
  | op :: ops => Api.run (Api.step w op).1 ops

end SafeHtml.Model.Tmpl
