/- The URL-prefix validators the template model uses: the full model of template/url.go (Model/TmplUrl). -/
import SafeHtml.Model.Tmpl.Sanitize
import SafeHtml.Model.TmplUrl
namespace SafeHtml.Model.Tmpl
open SafeHtml

def liteValidators : Validators :=
  { url := Model.TmplUrl.validateURLPrefix,
    tru := Model.TmplUrl.validateTrustedResourceURLPrefix,
    inQuery := Model.TmplUrl.inQueryOrFragment }

end SafeHtml.Model.Tmpl
