/- INTERIM model of template/url.go prefix validation (numeric and a few named character
   references only). To be replaced by the C14 builder's Model/TmplUrl.lean (full html.UnescapeString). -/
import SafeHtml.Model.Tmpl.Sanitize
import SafeHtml.Model.Url
import SafeHtml.Model.UrlUtil
namespace SafeHtml.Model.Tmpl
open SafeHtml SafeHtml.Generated.Regexes

def liteEntities : List (Bytes × Bytes) :=
  [([97,109,112,59], [38]), ([108,116,59], [60]), ([103,116,59], [62]), ([113,117,111,116,59], [34]),
   ([97,112,111,115,59], [39]), ([97,109,112], [38]), ([108,116], [60]), ([103,116], [62]), ([113,117,111,116], [34]),
   ([99,111,108,111,110,59], [58]), ([84,97,98,59], [9]), ([78,101,119,76,105,110,101,59], [10]),
   ([115,111,108,59], [47]), ([113,117,101,115,116,59], [63]), ([110,117,109,59], [35])]

def parseDigits (base : Nat) : Bytes → Nat → Nat × Bytes × Nat
  | [], acc => (acc, [], 0)
  | c :: t, acc =>
    let d : Option Nat :=
      if isDigit c then some (c - 48)
      else if base == 16 && 97 ≤ c && c ≤ 102 then some (c - 87)
      else if base == 16 && 65 ≤ c && c ≤ 70 then some (c - 55)
      else none
    match d with
    | some v => let (r, rest, n) := parseDigits base t (acc * base + v); (r, rest, n + 1)
    | none => (acc, c :: t, 0)

def unescapeLite : Nat → Bytes → Bytes
  | 0, s => s
  | _, [] => []
  | f+1, 38 :: t =>
    match t with
    | 35 :: r =>
      let (isHex, r') := match r with | 120 :: x => (true, x) | 88 :: x => (true, x) | _ => (false, r)
      let (v, rest, n) := parseDigits (if isHex then 16 else 10) r' 0
      if n == 0 then 38 :: unescapeLite f t
      else
        let rest := match rest with | 59 :: x => x | _ => rest
        let v := if v == 0 || v > 0x10FFFF || (0xD800 ≤ v && v ≤ 0xDFFF) then 0xFFFD else v
        Utf8.encodeRune v ++ unescapeLite f rest
    | _ =>
      match liteEntities.find? (fun e => e.1.isPrefixOf t) with
      | some e => e.2 ++ unescapeLite f (t.drop e.1.length)
      | none => 38 :: unescapeLite f t
  | f+1, c :: t => c :: unescapeLite f t

def decodeURLPrefix (p : Bytes) : Option Bytes :=
  if Rx.matchString template_containsWhitespaceOrControlPattern p then none
  else if Rx.matchString template_endsWithCharRefPrefixPattern p then none
  else
    let d := unescapeLite (p.length + 1) p
    if Rx.matchString template_containsWhitespaceOrControlPattern d then none
    else if Rx.matchString template_endsWithPercentEncodingPrefixPattern d then none
    else some d

def validateURLPrefix (p : Bytes) : Bool :=
  match decodeURLPrefix p with
  | none => false
  | some d =>
    if Rx.matchString template_startsWithFullySpecifiedSchemePattern d then urlSanitized d == d
    else d.any fun b => b == 47 || b == 63 || b == 35

def validateTrustedResourceURLPrefix (p : Bytes) : Bool :=
  match decodeURLPrefix p with
  | none => false
  | some d => isSafeTrustedResourceURLPrefix d

def liteValidators : Validators := { url := validateURLPrefix, tru := validateTrustedResourceURLPrefix }

end SafeHtml.Model.Tmpl
