/- Model of the escaper of template/escape.go: contextual analysis with memo, derived templates,
   pending edits and commit. All recursion is on one fuel argument (so `decide` can evaluate it);
   running out of fuel is a distinct outcome, never a default. -/
import SafeHtml.Model.Tmpl.Ast
import SafeHtml.Model.Tmpl.Sanitize
namespace SafeHtml.Model.Tmpl
open SafeHtml SafeHtml.Generated.Policy

inductive Out (α : Type) where
  | ok (a : α)
  | panic (where_ : String)
  | fuel
  deriving Repr

@[inline] def Out.bind {α β} (x : Out α) (f : α → Out β) : Out β :=
  match x with
  | .ok a => f a
  | .panic w => .panic w
  | .fuel => .fuel

instance : Monad Out where
  pure := .ok
  bind := Out.bind

/-- text/template's common set of one name space: name ↦ tree (`none` = registered with nil Tree) -/
abbrev TextSet := List (String × Option Tree)

def TextSet.lookup (ts : TextSet) (n : String) : Option (Option Tree) :=
  match ts.find? (fun p => p.1 == n) with
  | some p => some p.2
  | none => none

def TextSet.set (ts : TextSet) (n : String) (t : Option Tree) : TextSet :=
  if ts.any (fun p => p.1 == n) then ts.map (fun p => if p.1 == n then (n, t) else p)
  else ts ++ [(n, t)]

abbrev EditKey := String × Nat

structure Esc where
  output : List (String × Ctx) := []
  derived : List (String × Tree) := []
  called : List String := []
  actionEdits : List (EditKey × List String) := []
  tmplEdits : List (EditKey × String) := []
  textEdits : List (EditKey × Bytes) := []
  /-- copies of parse trees taken before commit first rewrote them (shared by reference with scratch escapers) -/
  pristine : List (String × Tree) := []
  /-- bookkeeping for finding classification only (never read by the analysis): the static attribute value
      prefix a memo entry was computed with, and whether a memo hit ever happened under a different prefix -/
  memoPrefix : List (String × Bytes × Bool) := []
  prefixReuse : Bool := false
  deriving Inhabited

def alookup {β} (l : List (String × β)) (k : String) : Option β :=
  match l.find? (fun p => p.1 == k) with
  | some p => some p.2
  | none => none

def aset {β} (l : List (String × β)) (k : String) (v : β) : List (String × β) :=
  if l.any (fun p => p.1 == k) then l.map (fun p => if p.1 == k then (k, v) else p)
  else l ++ [(k, v)]

structure Env where
  text : TextSet
  nsHas : String → Bool       -- e.ns.set[name] != nil
  csp : Bool
  v : Validators

def nudge (c : Ctx) : Ctx :=
  match c.state with
  | .tag => { c with state := .attrName }
  | .beforeValue => { c with state := .attr, delim := .spaceOrTagEnd }
  | .afterName => { c with state := .attrName }
  | _ => c

def joinNames (aName bName : Bytes) (aNames bNames : List Bytes) : List Bytes :=
  -- all names recorded for `a` are kept; then the two current names if they differ; then b's names; no duplicates
  let add (acc : List Bytes) (n : Bytes) : List Bytes := if acc.contains n then acc else acc ++ [n]
  let r0 := aNames.foldl add []
  let r1 := if aName != bName then add (add r0 aName) bName else r0
  bNames.foldl add r1

/-- `join`; the recursion through `nudge` happens at most once -/
def joinCore (a b : Ctx) (allowNudge : Bool) : Ctx :=
  if a.state == .error then a
  else if b.state == .error then b
  else
    let a := { a with elemNames := joinNames a.elemName b.elemName a.elemNames b.elemNames,
                      attrNames := joinNames a.attrName b.attrName a.attrNames b.attrNames,
                      ambiguous := a.ambiguous || (a.attrValue != b.attrValue) || b.ambiguous }
    if a.eq b then a
    else if ({ a with elemName := b.elemName }).eq b then { a with elemName := b.elemName }
    else if ({ a with attrName := b.attrName }).eq b then { a with attrName := b.attrName }
    else
      let c := nudge a
      let d := nudge b
      let fallback := Ctx.errorCtx .branchEnd
      if allowNudge && !(c.eq a && d.eq b) then
        -- inner join on nudged contexts (nudge is idempotent, so the inner call cannot nudge again)
        let e :=
          if c.state == .error then c else if d.state == .error then d else
          let c := { c with elemNames := joinNames c.elemName d.elemName c.elemNames d.elemNames,
                            attrNames := joinNames c.attrName d.attrName c.attrNames d.attrNames,
                            ambiguous := c.ambiguous || (c.attrValue != d.attrValue) || d.ambiguous }
          if c.eq d then c
          else if ({ c with elemName := d.elemName }).eq d then { c with elemName := d.elemName }
          else if ({ c with attrName := d.attrName }).eq d then { c with attrName := d.attrName }
          else fallback
        if e.state != .error then e else fallback
      else fallback

def join (a b : Ctx) : Ctx := joinCore a b true

/-- `mangle`: injective rendering of (state, delim, attr name, element name); the real code uses
    `strings.Title` of the names. The spelling matters: a template text may define a template whose name IS a
    mangled name (known finding mangled-name-collision). -/
def mangle (c : Ctx) (name : String) : String :=
  if c.state == .text && c.elemName == [] && c.elemNames.isEmpty then name
  else
    -- fmt %q of a []string / string (names are lower-case ASCII identifiers here; no escapes needed)
    let q (b : Bytes) : String := "\"" ++ strOfBytes b ++ "\""
    let namesStr (l : List Bytes) : String := "[" ++ String.intercalate " " (l.map q) ++ "]"
    name ++ "$htmltemplate_" ++ c.state.str ++
      (if c.delim != .none then "_" ++ c.delim.str else "") ++
      (if c.attrName != [] then "_attr" ++ strOfBytes (titleAscii c.attrName) else "") ++
      (if c.elemName != [] then "_element" ++ strOfBytes (titleAscii c.elemName) else "") ++
      (if !c.attrNames.isEmpty || !c.elemNames.isEmpty || c.scriptType != [] || c.linkRel != [] then
        "_" ++ namesStr c.attrNames ++ "_" ++ namesStr c.elemNames ++ "_" ++ q c.scriptType ++ "_" ++
          q c.linkRel
       else "")

def isPredefined (n : String) : Bool := predefinedEscapers.any fun r => strOfBytes r.2 == n

def Esc.editAction (e : Esc) (k : EditKey) (v : List String) : Out Esc :=
  if e.actionEdits.any (fun p => p.1 == k) then .panic "node shared between templates"
  else .ok { e with actionEdits := e.actionEdits ++ [(k, v)] }
def Esc.editTmpl (e : Esc) (k : EditKey) (v : String) : Out Esc :=
  if e.tmplEdits.any (fun p => p.1 == k) then .panic "node shared between templates"
  else .ok { e with tmplEdits := e.tmplEdits ++ [(k, v)] }
def Esc.editText (e : Esc) (k : EditKey) (v : Bytes) : Out Esc :=
  if e.textEdits.any (fun p => p.1 == k) then .panic "node shared between templates"
  else .ok { e with textEdits := e.textEdits ++ [(k, v)] }

/-- e.template(name): text set first, then derived -/
def Esc.template (env : Env) (e : Esc) (name : String) : Option (Option Tree) :=
  match env.text.lookup name with
  | some t => some t
  | none => (alookup e.derived name).map some

def mergeEdits {β} (into from_ : List (EditKey × β)) : Out (List (EditKey × β)) :=
  from_.foldlM (fun acc p =>
    if acc.any (fun q => q.1 == p.1) then Out.panic "node shared between templates" else .ok (acc ++ [p])) into

/-- predefined-escaper check of escapeAction: `some true` = error, `none` = a command without arguments (Go panics) -/
def predefinedCheck (c : Ctx) (cmds : List Cmd) : Option Bool :=
  let n := cmds.length
  let rec go : List Cmd → Nat → Option Bool
    | [], _ => some false
    | cmd :: rest, pos =>
      match cmd.args with
      | [] => none
      | .ident name :: _ =>
        if isPredefined name &&
            (pos + 1 < n || (c.state == .attr && c.delim == .spaceOrTagEnd && name == "html")) then some true
        else go rest (pos + 1)
      | _ :: _ => go rest (pos + 1)
  go cmds 0

def escapeAction (env : Env) (tn : String) (e : Esc) (c : Ctx) (id : Nat) (p : Pipe) : Out (Esc × Ctx) :=
  if !p.decl.isEmpty then .ok (e, c)
  else
    let c := nudge c
    match predefinedCheck c p.cmds with
    | none => .panic "index out of range: command without arguments"
    | some true => .ok (e, Ctx.errorCtx .predefinedEscaper)
    | some false =>
      if c.state == .error then .ok (e, c)
      else
        let c := if c.state == .attrName || c.state == .tag then { c with state := .attrName } else c
        match sanitizerForContext env.v c with
        | none => .ok (e, Ctx.errorCtx .escapeAction)
        | some s => do
          let e ← e.editAction (tn, id) s
          pure (e, c)

def escapeTextNode (env : Env) (tn : String) (e : Esc) (c : Ctx) (id : Nat) (b : Bytes) : Out (Esc × Ctx) :=
  match escapeText env.csp c b with
  | .panic => .panic "infinite loop in escapeText"
  | .done c' none => .ok (e, c')
  | .done c' (some nb) => do
    let e ← e.editText (tn, id) nb
    pure (e, c')

mutual
def escapeNode (env : Env) : Nat → String → Esc → Ctx → Node → Out (Esc × Ctx)
  | 0, _, _, _, _ => .fuel
  | f+1, tn, e, c, n =>
    match n with
    | .action id p => escapeAction env tn e c id p
    | .text id b => escapeTextNode env tn e c id b
    | .ifN _ _ t el => escapeBranch env f tn e c t el false
    | .withN _ _ t el => escapeBranch env f tn e c t el false
    | .rangeN _ _ t el => escapeBranch env f tn e c t el true
    | .tmpl id name _ => do
      let (e, c', dname) ← escapeTree env f e c name
      if dname != name then
        let e ← e.editTmpl (tn, id) dname
        pure (e, c')
      else pure (e, c')
    -- nodes the escaper does not know: an analysis error (it used to be a Go panic)
    | .brk _ => .ok (e, Ctx.errorCtx .escapeAction)
    | .cont _ => .ok (e, Ctx.errorCtx .escapeAction)
    | .comment _ => .ok (e, Ctx.errorCtx .escapeAction)

def escapeList (env : Env) : Nat → String → Esc → Ctx → NodeList → Out (Esc × Ctx)
  | 0, _, _, _, _ => .fuel
  | f+1, tn, e, c, l =>
    match l with
    | .nil => .ok (e, c)
    | .cons n ns => do
      let (e, c) ← escapeNode env f tn e c n
      escapeList env f tn e c ns

def escapeBranch (env : Env) : Nat → String → Esc → Ctx → NodeList → NodeList → Bool → Out (Esc × Ctx)
  | 0, _, _, _, _, _, _ => .fuel
  | f+1, tn, e, c, t, el, isRange => do
    let (e, c0) ← escapeList env f tn e c t
    -- range: re-entry check on a scratch escaper whose results are always dropped (filter = nil)
    let c0r : Out (Option Ctx) :=
      if isRange && c0.state != .error then do
        let (_, c1) ← escapeList env f tn { output := e.output, pristine := e.pristine, memoPrefix := e.memoPrefix } c0 t
        let j := join c0 c1
        pure (some j)
      else pure none
    match ← c0r with
    | some j =>
      if j.state == .error then pure (e, j)
      else do
        let (e, c1) ← escapeList env f tn e c el
        pure (e, join j c1)
    | none => do
      let (e, c1) ← escapeList env f tn e c el
      pure (e, join c0 c1)

/-- escapeTree: returns (escaper, output context, mangled name) -/
def escapeTree (env : Env) : Nat → Esc → Ctx → String → Out (Esc × Ctx × String)
  | 0, _, _, _ => .fuel
  | f+1, e, c, name =>
    -- an error context is final: no memo lookup, nothing recorded
    if c.state == .error then .ok (e, c, name) else
    let dname := mangle c name
    let e := { e with called := if e.called.contains dname then e.called else e.called ++ [dname] }
    match alookup e.output dname with
    | some out =>
      let differs := match alookup e.memoPrefix dname with
        | some p => p.1 != c.attrValue || p.2 != c.ambiguous
        | none => false
      .ok ({ e with prefixReuse := e.prefixReuse || differs }, out, dname)
    | none =>
      let e := { e with memoPrefix := aset e.memoPrefix dname (c.attrValue, c.ambiguous) }
      match e.template env name with
      | none => .ok (e, Ctx.errorCtx .noSuchTemplate, dname)
      | some none => .ok (e, Ctx.errorCtx .noSuchTemplate, dname)   -- no parse tree: incomplete template
      | some (some tr) =>
        if dname != name then
          match e.template env dname with
          | some dt => do
            let (e, c') ← computeOutCtx env f e c dname dt
            pure (e, c', dname)
          | none =>
            -- derived templates are copied from the pristine tree when the template was already rewritten
            let src := (alookup e.pristine name).getD tr
            let dt : Tree := { src with name := dname }
            let e := { e with derived := aset e.derived dname dt }
            do
              let (e, c') ← computeOutCtx env f e c dname (some dt)
              pure (e, c', dname)
        else do
          let (e, c') ← computeOutCtx env f e c dname (some tr)
          pure (e, c', dname)

def computeOutCtx (env : Env) : Nat → Esc → Ctx → String → Option Tree → Out (Esc × Ctx)
  | 0, _, _, _, _ => .fuel
  | f+1, e, c, tname, t => do
    let (e, c1, ok) ← escapeTemplateBody env f e c tname t
    -- on success the computed output context is memoized (e.output[t.Name()] = c1)
    if ok then pure ({ e with output := aset e.output tname c1 }, c1)
    else do
      let (e, c2, ok2) ← escapeTemplateBody env f e c1 tname t
      if ok2 then pure ({ e with output := aset e.output tname c2 }, c2)
      -- the error is memoized too (e.output[t.Name()] = c1)
      else if c1.state != .error then
        pure ({ e with output := aset e.output tname (Ctx.errorCtx .outputContext) }, Ctx.errorCtx .outputContext)
      else pure ({ e with output := aset e.output tname c1 }, c1)

def escapeTemplateBody (env : Env) : Nat → Esc → Ctx → String → Option Tree → Out (Esc × Ctx × Bool)
  | 0, _, _, _, _ => .fuel
  | f+1, e, c, tname, t =>
    let e := { e with output := aset e.output tname c }
    match t with
    | none => .panic "nil pointer dereference: t.Tree.Root of a nil Tree"
    | some tr => do
      let (e1, c1) ← escapeList env f tname { output := e.output, pristine := e.pristine, memoPrefix := e.memoPrefix } c tr.root
      let ok := c1.state != .error && (!e1.called.contains tname || c.eq c1)
      if ok then do
        let ae ← mergeEdits e.actionEdits e1.actionEdits
        let te ← mergeEdits e.tmplEdits e1.tmplEdits
        let xe ← mergeEdits e.textEdits e1.textEdits
        let e := { pristine := e.pristine,
                   memoPrefix := e1.memoPrefix.foldl (fun acc p => aset acc p.1 p.2) e.memoPrefix,
                   prefixReuse := e.prefixReuse || e1.prefixReuse,
                   output := e1.output.foldl (fun acc p => aset acc p.1 p.2) e.output,
                   derived := e1.derived.foldl (fun acc p => aset acc p.1 p.2) e.derived,
                   called := e1.called.foldl (fun acc n => if acc.contains n then acc else acc ++ [n]) e.called,
                   actionEdits := ae, tmplEdits := te, textEdits := xe }
        pure (e, c1, true)
      else pure ({ e with prefixReuse := e.prefixReuse || e1.prefixReuse }, c1, false)
end

/-! ### commit -/

def equivOf (n : String) : String :=
  match equivEscapers.find? (fun p => p.1 == n) with
  | some p => p.2
  | none => n

def identCmd (n : String) : Cmd := { args := [.ident n] }

/-- ensurePipelineContains; `none` = Go would panic on a command without arguments -/
def ensurePipelineContains (p : Pipe) (s : List String) : Option Pipe :=
  if s.isEmpty then some p
  else
    match p.cmds.getLast? with
    | none => some { p with cmds := s.map identCmd }
    | some lastCmd =>
      match lastCmd.args with
      | [] => none
      | .ident esc :: restArgs =>
        if isPredefined esc then
          let (cmds, plen) :=
            if p.cmds.length == 1 && !restArgs.isEmpty then
              ([{ args := .ident fnEvalArgs :: restArgs }, identCmd esc], 2)
            else (p.cmds, p.cmds.length)
          let dup := s.any fun x => equivOf esc == equivOf x
          let s' := s.map fun x => if equivOf esc == equivOf x then esc else x
          let plen := if dup then plen - 1 else plen
          some { p with cmds := cmds.take plen ++ s'.map identCmd }
        else some { p with cmds := p.cmds ++ s.map identCmd }
      | _ :: _ => some { p with cmds := p.cmds ++ s.map identCmd }

mutual
def Node.applyEdits (tn : String) (e : Esc) : Node → Option Node
  | .text id b =>
    some (match e.textEdits.find? (fun p => p.1 == (tn, id)) with
      | some p => .text id p.2
      | none => .text id b)
  | .action id p =>
    match e.actionEdits.find? (fun q => q.1 == (tn, id)) with
    | some q => (ensurePipelineContains p q.2).map (.action id ·)
    | none => some (.action id p)
  | .tmpl id name p =>
    some (match e.tmplEdits.find? (fun q => q.1 == (tn, id)) with
      | some q => .tmpl id q.2 p
      | none => .tmpl id name p)
  | .ifN id p t el => do
    let t' ← NodeList.applyEdits tn e t
    let el' ← NodeList.applyEdits tn e el
    pure (.ifN id p t' el')
  | .rangeN id p t el => do
    let t' ← NodeList.applyEdits tn e t
    let el' ← NodeList.applyEdits tn e el
    pure (.rangeN id p t' el')
  | .withN id p t el => do
    let t' ← NodeList.applyEdits tn e t
    let el' ← NodeList.applyEdits tn e el
    pure (.withN id p t' el')
  | n => some n
def NodeList.applyEdits (tn : String) (e : Esc) : NodeList → Option NodeList
  | .nil => some .nil
  | .cons n ns => do
    let n' ← Node.applyEdits tn e n
    let ns' ← NodeList.applyEdits tn e ns
    pure (.cons n' ns')
end

/-- commit: install derived templates (AddParseTree keeps an existing non-nil tree when the new one is
    empty), apply the pending edits, clear `called` and the edit maps; `output` and `derived` persist. -/
def commit (text : TextSet) (e : Esc) : Out (TextSet × Esc) := do
  -- `e.template(name).Funcs(funcs)` for every memo entry: nil dereference if the template vanished
  let allPresent := e.output.all fun p => (text.lookup p.1).isSome || (alookup e.derived p.1).isSome
  if !allPresent then .panic "nil pointer dereference: e.template(name).Funcs in commit" else
  -- snapshot every analysed template that has not been rewritten yet
  let pristine := e.output.foldl (fun (acc : List (String × Tree)) p =>
      if (alookup acc p.1).isSome then acc
      else match text.lookup p.1 with
        | some (some t) => acc ++ [(p.1, t)]
        | some none => acc
        | none => match alookup e.derived p.1 with
          | some t => acc ++ [(p.1, t)]
          | none => acc) e.pristine
  let e := { e with pristine := pristine }
  let text1 := e.derived.foldl (fun ts (p : String × Tree) =>
      match ts.lookup p.1 with
      | some (some _) => if p.2.root.isEmpty then ts else ts.set p.1 (some p.2)
      | _ => ts.set p.1 (some p.2)) text
  let names := (e.actionEdits.map (·.1.1) ++ e.tmplEdits.map (·.1.1) ++ e.textEdits.map (·.1.1)).eraseDups
  let text2 ← names.foldlM (fun (ts : TextSet) n =>
      match ts.lookup n with
      | some (some tr) =>
        match NodeList.applyEdits n e tr.root with
        | some r => Out.ok (ts.set n (some { tr with root := r }))
        | none => Out.panic "index out of range: command without arguments"
      | _ => Out.ok ts) text1
  -- `e.derived[n]` and the installed template share one *parse.Tree: the edits are visible through both
  let derived := e.derived.map fun (p : String × Tree) =>
    match text2.lookup p.1 with
    | some (some t) => (p.1, t)
    | _ => p
  pure (text2, { e with derived := derived, called := [], actionEdits := [], tmplEdits := [], textEdits := [] })

end SafeHtml.Model.Tmpl
