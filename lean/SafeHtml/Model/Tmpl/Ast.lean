/- Parse trees of text/template as the harness serialises them (the real parser produces them). -/
import SafeHtml.Basic.Bytes
namespace SafeHtml.Model.Tmpl
open SafeHtml

/-- a command argument; only what analysis and the modelled part of execution need -/
inductive Arg where
  | field (names : List String)        -- .A.B
  | ident (name : String)              -- function identifier
  | dot
  | str (b : Bytes)
  | num (text : String)
  | var (names : List String)          -- $x.A
  | bool (b : Bool)
  | nil
  | other (kind : String)              -- sub-pipeline, chain … (execution unsupported)
  deriving Repr, DecidableEq, Inhabited

structure Cmd where
  args : List Arg
  deriving Repr, DecidableEq, Inhabited

structure Pipe where
  decl : List String := []
  cmds : List Cmd := []
  deriving Repr, DecidableEq, Inhabited

mutual
inductive Node where
  | text (id : Nat) (b : Bytes)
  | action (id : Nat) (p : Pipe)
  | ifN (id : Nat) (p : Pipe) (t : NodeList) (e : NodeList)
  | rangeN (id : Nat) (p : Pipe) (t : NodeList) (e : NodeList)
  | withN (id : Nat) (p : Pipe) (t : NodeList) (e : NodeList)
  | tmpl (id : Nat) (name : String) (p : Option Pipe)
  | brk (id : Nat)
  | cont (id : Nat)
  | comment (id : Nat)
inductive NodeList where
  | nil
  | cons (n : Node) (ns : NodeList)
end

instance : Inhabited NodeList := ⟨.nil⟩
instance : Inhabited Node := ⟨.comment 0⟩

def NodeList.ofList : List Node → NodeList
  | [] => .nil
  | n :: t => .cons n (NodeList.ofList t)

mutual
def Node.size : Node → Nat
  | .ifN _ _ t e => 1 + t.size + e.size
  | .rangeN _ _ t e => 1 + t.size + e.size
  | .withN _ _ t e => 1 + t.size + e.size
  | _ => 1
def NodeList.size : NodeList → Nat
  | .nil => 0
  | .cons n ns => n.size + ns.size
end

/-- a named parse tree; `root = none` models a nil Tree/Root -/
structure Tree where
  name : String
  root : NodeList
  deriving Inhabited

/-- parse.IsEmptyTree: only whitespace text / empty lists / comments -/
def isSpaceByte (b : Nat) : Bool := b == 32 || b == 9 || b == 10 || b == 13 || b == 11 || b == 12 || b == 0x85 || b == 0xA0

mutual
def Node.isEmpty : Node → Bool
  | .text _ b => b.all fun c => c == 32 || c == 9 || c == 10 || c == 13 || c == 11 || c == 12
  | .comment _ => true
  | _ => false
def NodeList.isEmpty : NodeList → Bool
  | .nil => true
  | .cons n ns => n.isEmpty && ns.isEmpty
end

end SafeHtml.Model.Tmpl
