/- Model of internal/safehtmlutil: urlProcessor (QueryEscapeURL / NormalizeURL), prefix and dot-dot checks. -/
import SafeHtml.Generated.Regexes
import SafeHtml.Generated.Tables
namespace SafeHtml.Model
open SafeHtml SafeHtml.Generated.Regexes SafeHtml.Generated.Tables

def pctEncode (c : Nat) : Bytes := [37, hexDigitLower (c / 16 % 16), hexDigitLower (c % 16)]

/-- does `urlProcessor` keep byte `c` (followed by `rest`) as it is? -/
def urlKeeps (norm : Bool) (c : Nat) (rest : Bytes) : Bool :=
  if urlProcNormOnly.contains c then norm
  else if urlProcAlways.contains c then true
  else if urlProcPercent.contains c then
    norm && (match rest with
      | a :: b :: _ => isHexDigit a && isHexDigit b
      | _ => false)
  else urlProcDefaultRanges.any fun r => r.1 ≤ c && c ≤ r.2

def urlProcessor (norm : Bool) : Bytes → Bytes
  | [] => []
  | c :: t => (if urlKeeps norm c t then [c] else pctEncode c) ++ urlProcessor norm t

def queryEscapeURL (s : Bytes) : Bytes := urlProcessor false s
def normalizeURL (s : Bytes) : Bytes := urlProcessor true s

def isSafeTrustedResourceURLPrefix (s : Bytes) : Bool :=
  Rx.matchString safehtmlutil_safeTrustedResourceURLPrefixPattern s

def urlContainsDoubleDotSegment (s : Bytes) : Bool :=
  Rx.matchString safehtmlutil_urlDoubleDotSegmentPattern s

end SafeHtml.Model
